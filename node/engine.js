// Reference engine process for the xjs monitors. Run as:
//   node --expose-internals /verif/node/engine.js
// Protocol: one JSON request per stdin line, one JSON response per stdout line.
//   {op:"parse", code}            -> {s:"<S-expression>"} | {err:"..."} ; plus v8:"ok"|"<SyntaxError message>"
//   {op:"run",   code, timeout}   -> {out:[...], completion:"normal"|"throw:<Ctor>"|"syntax"|"timeout"}
//   {op:"lits",  items:[src...]}  -> {vals:[tagged value...]}
'use strict';
const vm = require('vm');
let acorn = null;
try { acorn = require('internal/deps/acorn/acorn/dist/acorn'); } catch (e) { acorn = null; }

function q(s) { return JSON.stringify(s); }
// string values are compared by meaning: printable ASCII as is (except " and \), every other UTF-16 code unit as \uXXXX
// (the same rendering as jsstr.Show in the Go harness)
// numbers are compared by value: the IEEE-754 bit pattern (the same rendering as jsstr.NumMeaning in the Go harness)
function f64(v) {
  const b = Buffer.alloc(8);
  b.writeDoubleBE(v);
  return 'f64:' + b.toString('hex');
}
function showUnits(s) {
  let out = '';
  for (let i = 0; i < s.length; i++) {
    const c = s.charCodeAt(i);
    if (c >= 0x20 && c < 0x7f && c !== 0x22 && c !== 0x5c) out += s[i];
    else out += '\\u' + c.toString(16).padStart(4, '0');
  }
  return '"' + out + '"';
}

function S(n) {
  if (n === null || n === undefined) return '_';
  switch (n.type) {
    case 'Program': return '(program' + n.body.map(s => ' ' + S(s)).join('') + ')';
    case 'VariableDeclaration': {
      if (n.kind !== 'let' || n.declarations.length !== 1 || n.declarations[0].id.type !== 'Identifier') return '(unsupported VariableDeclaration)';
      const d = n.declarations[0];
      return '(let ' + d.id.name + (d.init ? ' ' + S(d.init) : '') + ')';
    }
    case 'FunctionDeclaration':
      if (n.async || n.generator) return '(unsupported fn)';
      return '(func ' + n.id.name + ' (' + n.params.map(p => p.name).join(' ') + ') ' + S(n.body) + ')';
    case 'ReturnStatement': return '(return' + (n.argument ? ' ' + S(n.argument) : '') + ')';
    case 'IfStatement': return '(if ' + S(n.test) + ' ' + S(n.consequent) + (n.alternate ? ' ' + S(n.alternate) : '') + ')';
    case 'WhileStatement': return '(while ' + S(n.test) + ' ' + S(n.body) + ')';
    case 'ForStatement': return '(for ' + S(n.init) + ' ' + S(n.test) + ' ' + S(n.update) + ' ' + S(n.body) + ')';
    case 'BlockStatement': return '(block' + n.body.map(s => ' ' + S(s)).join('') + ')';
    case 'ExpressionStatement': return '(expr ' + S(n.expression) + ')';
    case 'Identifier': return '(id ' + n.name + ')';
    case 'Literal':
      if (n.value === null && n.raw === 'null') return '(null)';
      if (typeof n.value === 'number') return '(num ' + f64(n.value) + ')';
      if (typeof n.value === 'string') return '(str ' + showUnits(n.value) + ')';
      if (typeof n.value === 'boolean') return '(' + n.raw + ')';
      return '(unsupported Literal)';
    case 'TemplateLiteral':
      if (n.expressions.length) return '(unsupported TemplateLiteral-with-expressions)';
      return '(tpl ' + (n.quasis[0].value.cooked === null || n.quasis[0].value.cooked === undefined ? '!raw:' + n.quasis[0].value.raw : showUnits(n.quasis[0].value.cooked)) + ')';
    case 'ArrayExpression': return '(arr' + n.elements.map(e => ' ' + S(e)).join('') + ')';
    case 'ObjectExpression':
      return '(obj' + n.properties.map(p => {
        if (p.type !== 'Property' || p.computed || p.shorthand || p.method || p.kind !== 'init') return ' (unsupported Property)';
        return ' (prop ' + S(p.key) + ' ' + S(p.value) + ')';
      }).join('') + ')';
    case 'FunctionExpression':
      if (n.async || n.generator) return '(unsupported fn)';
      return '(fn ' + (n.id ? n.id.name : '_') + ' (' + n.params.map(p => p.name).join(' ') + ') ' + S(n.body) + ')';
    case 'UnaryExpression': return '(un ' + n.operator + ' ' + S(n.argument) + ')';
    case 'UpdateExpression': return '(' + (n.prefix ? 'un ' : 'post ') + n.operator + ' ' + S(n.argument) + ')';
    case 'BinaryExpression':
    case 'LogicalExpression': return '(bin ' + n.operator + ' ' + S(n.left) + ' ' + S(n.right) + ')';
    case 'AssignmentExpression': return '(asg ' + n.operator + ' ' + S(n.left) + ' ' + S(n.right) + ')';
    case 'CallExpression':
      if (n.optional) return '(unsupported optional-call)';
      return '(call ' + S(n.callee) + n.arguments.map(a => ' ' + S(a)).join('') + ')';
    case 'MemberExpression':
      if (n.optional) return '(unsupported optional-member)';
      return n.computed ? '(idx ' + S(n.object) + ' ' + S(n.property) + ')' : '(dot ' + S(n.object) + ' ' + n.property.name + ')';
    default: return '(unsupported ' + n.type + ')';
  }
}

function canon(v, depth) {
  switch (typeof v) {
    case 'undefined': return 'undefined';
    case 'number': return Object.is(v, -0) ? 'n:-0' : 'n:' + String(v);
    case 'string': return 's:' + q(v);
    case 'boolean': return 'b:' + v;
    case 'function': return 'fn';
    case 'bigint': return 'big:' + v;
    case 'symbol': return 'sym';
    case 'object':
      if (v === null) return 'null';
      if (depth > 5) return '...';
      if (Array.isArray(v)) {
        const parts = [];
        for (let i = 0; i < v.length && i < 50; i++) parts.push(i in v ? canon(v[i], depth + 1) : 'hole');
        return '[' + parts.join(',') + (v.length > 50 ? ',+' + (v.length - 50) : '') + ']';
      }
      try {
        const ks = Object.keys(v);
        return '{' + ks.slice(0, 50).map(k => q(k) + ':' + canon(v[k], depth + 1)).join(',') + '}';
      } catch (e) { return 'obj?'; }
  }
  return '?';
}

function run(code, timeout) {
  const out = [];
  let budget = 2000;
  const sandbox = { print: function (v) { if (budget-- > 0) out.push(canon(v, 0)); return undefined; } };
  const ctx = vm.createContext(sandbox);
  let script;
  try {
    script = new vm.Script(code, { filename: 'p.js' });
  } catch (e) {
    return { out, completion: 'syntax', msg: String(e && e.message) };
  }
  try {
    script.runInContext(ctx, { timeout: timeout || 1000 });
    return { out, completion: 'normal' };
  } catch (e) {
    if (e && e.code === 'ERR_SCRIPT_EXECUTION_TIMEOUT') return { out, completion: 'timeout' };
    let name = 'non-error';
    try {
      if (e !== null && (typeof e === 'object' || typeof e === 'function')) {
        name = (e.constructor && e.constructor.name) || 'object';
        if (name === 'RangeError' && /call stack/i.test(String(e.message))) name = 'RangeError:stack';
      } else {
        name = 'value:' + canon(e, 0);
      }
    } catch (e2) { name = 'unknown'; }
    return { out, completion: 'throw:' + name };
  }
}

function litVal(src) {
  let v;
  try {
    v = (0, eval)(src);
  } catch (e) {
    return 'err:' + ((e && e.name) || 'unknown');
  }
  if (typeof v === 'string') {
    let h = '';
    for (let i = 0; i < v.length; i++) h += v.charCodeAt(i).toString(16).padStart(4, '0');
    return 's:' + h;
  }
  if (typeof v === 'number') {
    const b = Buffer.alloc(8); b.writeDoubleBE(v, 0);
    return 'n:' + b.toString('hex');
  }
  return 'other:' + typeof v;
}

function v8check(code) {
  try { new vm.Script(code, { filename: 'p.js' }); return 'ok'; } catch (e) { return String((e && e.name) + ': ' + (e && e.message)); }
}

function handle(req) {
  switch (req.op) {
    case 'ping': return { ok: true, acorn: !!acorn, node: process.version };
    case 'parse': {
      const res = {};
      if (acorn) {
        try {
          res.s = S(acorn.parse(req.code, { ecmaVersion: 'latest', sourceType: 'script' }));
        } catch (e) { res.err = String(e && e.message); }
      } else { res.err = 'no-acorn'; res.noacorn = true; }
      if (req.v8) res.v8 = v8check(req.code);
      return res;
    }
    case 'run': return run(req.code, req.timeout);
    case 'runmany': return { results: req.codes.map(c => run(c, req.timeout)) };
    case 'parsemany': return { results: req.codes.map(c => handle({ op: 'parse', code: c, v8: req.v8 })) };
    case 'lits': return { vals: req.items.map(litVal) };
    default: return { err: 'bad op' };
  }
}

let buf = '';
process.stdin.setEncoding('utf8');
process.stdin.on('data', chunk => {
  buf += chunk;
  let i;
  while ((i = buf.indexOf('\n')) >= 0) {
    const line = buf.slice(0, i); buf = buf.slice(i + 1);
    if (!line) continue;
    let resp;
    try { resp = handle(JSON.parse(line)); } catch (e) { resp = { err: 'engine: ' + String(e && e.stack) }; }
    process.stdout.write(JSON.stringify(resp) + '\n');
  }
});
process.stdin.on('end', () => process.exit(0));
