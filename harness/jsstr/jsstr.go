// Package jsstr is an independent decoder of ECMAScript string-literal bodies (the text between the quotes), written
// from the lexical grammar (StringLiteral, EscapeSequence, LineContinuation, Annex B legacy octal escapes). It is
// used to compare string literals by meaning (UTF-16 code units) rather than by spelling; acorn's cooked value is the
// cross-check (oracle self-check) wherever both are available.
package jsstr

import (
	"fmt"
	"math"
	"strconv"
	"strings"
	"unicode/utf8"
)

func hexv(c byte) int {
	switch {
	case c >= '0' && c <= '9':
		return int(c - '0')
	case c >= 'a' && c <= 'f':
		return int(c-'a') + 10
	case c >= 'A' && c <= 'F':
		return int(c-'A') + 10
	}
	return -1
}

func appendCP(out []uint16, cp int) []uint16 {
	if cp >= 0x10000 {
		cp -= 0x10000
		return append(out, uint16(0xD800+(cp>>10)), uint16(0xDC00+(cp&0x3FF)))
	}
	return append(out, uint16(cp))
}

// Decode returns the UTF-16 code units denoted by a (sloppy-mode) string literal body; ok=false if the body is not a
// well-formed body (incomplete \x / \u escape, code point above 10FFFF, raw line terminator LF/CR).
func Decode(body string) (out []uint16, ok bool) { return decode(body, false) }

// decode with template=true accepts raw line terminators (CR LF and CR count as LF), as in a backtick body.
func decode(body string, template bool) (out []uint16, ok bool) {
	for i := 0; i < len(body); {
		c := body[i]
		if c == '\n' || c == '\r' {
			if !template {
				return nil, false
			}
			if c == '\r' && i+1 < len(body) && body[i+1] == '\n' {
				i++
			}
			out = append(out, 0x0A)
			i++
			continue
		}
		if c != '\\' {
			r, n := utf8.DecodeRuneInString(body[i:])
			out = appendCP(out, int(r))
			i += n
			continue
		}
		i++
		if i >= len(body) {
			return nil, false
		}
		e := body[i]
		switch {
		case e == '\n':
			i++
		case e == '\r':
			i++
			if i < len(body) && body[i] == '\n' {
				i++
			}
		case strings.HasPrefix(body[i:], "\u2028"), strings.HasPrefix(body[i:], "\u2029"):
			i += 3
		case e == 'n':
			out, i = append(out, 0x0A), i+1
		case e == 't':
			out, i = append(out, 0x09), i+1
		case e == 'r':
			out, i = append(out, 0x0D), i+1
		case e == 'b':
			out, i = append(out, 0x08), i+1
		case e == 'f':
			out, i = append(out, 0x0C), i+1
		case e == 'v':
			out, i = append(out, 0x0B), i+1
		case e >= '0' && e <= '7':
			// \0 not followed by a digit is NUL; otherwise Annex B LegacyOctalEscapeSequence
			v, n := int(e-'0'), 1
			max := 2
			if e <= '3' {
				max = 3
			}
			for n < max && i+n < len(body) && body[i+n] >= '0' && body[i+n] <= '7' {
				v = v*8 + int(body[i+n]-'0')
				n++
			}
			out, i = append(out, uint16(v)), i+n
		case e == 'x':
			if i+2 >= len(body) || hexv(body[i+1]) < 0 || hexv(body[i+2]) < 0 {
				return nil, false
			}
			out, i = append(out, uint16(hexv(body[i+1])*16+hexv(body[i+2]))), i+3
		case e == 'u':
			if i+1 < len(body) && body[i+1] == '{' {
				j, v, nd := i+2, 0, 0
				for j < len(body) && hexv(body[j]) >= 0 {
					v = v*16 + hexv(body[j])
					if v > 0x10FFFF {
						return nil, false
					}
					j++
					nd++
				}
				if nd == 0 || j >= len(body) || body[j] != '}' {
					return nil, false
				}
				out, i = appendCP(out, v), j+1
			} else {
				if i+4 >= len(body) {
					return nil, false
				}
				v := 0
				for k := 1; k <= 4; k++ {
					h := hexv(body[i+k])
					if h < 0 {
						return nil, false
					}
					v = v*16 + h
				}
				out, i = append(out, uint16(v)), i+5
			}
		default:
			// identity escape (also \8 \9): the character itself
			r, n := utf8.DecodeRuneInString(body[i:])
			out = appendCP(out, int(r))
			i += n
		}
	}
	return out, true
}

// Show renders code units readably and injectively: printable ASCII as is (except " and \), everything else \uXXXX.
func Show(u []uint16) string {
	var sb strings.Builder
	const hexd = "0123456789abcdef"
	for _, c := range u {
		if c >= 0x20 && c < 0x7F && c != '"' && c != '\\' {
			sb.WriteByte(byte(c))
			continue
		}
		sb.WriteString("\\u")
		sb.WriteByte(hexd[c>>12])
		sb.WriteByte(hexd[(c>>8)&15])
		sb.WriteByte(hexd[(c>>4)&15])
		sb.WriteByte(hexd[c&15])
	}
	return sb.String()
}

// Meaning is the canonical form used inside S-expressions: the decoded value, or the raw body marked as undecodable.
func Meaning(body string) string {
	if u, ok := Decode(body); ok {
		return "\"" + Show(u) + "\""
	}
	return "!raw:" + body
}

// NumMeaning is the canonical form of a numeric literal of the subset (decimal, fraction, exponent, 0x, 0b, 0o): the
// IEEE-754 bit pattern of its value. Literals that this decoder does not understand are returned as written.
func NumMeaning(raw string) string {
	s := raw
	var v float64
	switch {
	case len(s) > 2 && s[0] == '0' && (s[1] == 'x' || s[1] == 'X' || s[1] == 'b' || s[1] == 'B' || s[1] == 'o' || s[1] == 'O'):
		base := map[byte]int{'x': 16, 'X': 16, 'b': 2, 'B': 2, 'o': 8, 'O': 8}[s[1]]
		u, err := strconv.ParseUint(s[2:], base, 64)
		if err != nil || u > 1<<53 {
			return "!raw:" + raw
		}
		v = float64(u)
	default:
		for i := 0; i < len(s); i++ {
			c := s[i]
			if !(c >= '0' && c <= '9') && c != '.' && c != 'e' && c != 'E' && c != '+' && c != '-' {
				return "!raw:" + raw
			}
		}
		if len(s) > 1 && s[0] == '0' && s[1] >= '0' && s[1] <= '9' {
			return "!raw:" + raw // legacy octal-like: not part of the subset
		}
		f, err := strconv.ParseFloat(s, 64)
		if err != nil && !math.IsInf(f, 0) {
			return "!raw:" + raw
		}
		v = f
	}
	return fmt.Sprintf("f64:%016x", math.Float64bits(v))
}

// TplMeaning is the cooked value of a backtick body without substitutions (CR LF and CR count as LF; no octal
// escapes); bodies it cannot decode are returned as raw text with line endings normalised.
func TplMeaning(body string) string {
	if u, ok := decode(body, true); ok {
		return "\"" + Show(u) + "\""
	}
	return "!raw:" + strings.ReplaceAll(strings.ReplaceAll(body, "\r\n", "\n"), "\r", "\n")
}
