// Package fw is the small runtime-monitoring framework shared by all property
// monitors: deterministic case derivation from (seed, property, stratum,
// index), per-case panic capture, counters for evidence, and the worker side of
// the parent/worker process model.
package fw

import (
	"encoding/binary"
	"encoding/json"
	"fmt"
	"hash/fnv"
	"math/rand/v2"
	"os"
	"runtime"
	"runtime/debug"
	"sort"
	"strings"
	"sync/atomic"
	"syscall"
	"time"
)

// Stratum is one family of cases of a property's workload.
type Stratum struct {
	Name       string
	Quick      int  // number of cases in quick tier
	Thorough   int  // number of cases in thorough tier
	Exhaustive bool // the case list enumerates a finite space completely (seed-independent)
	// PanicInconclusive: a panic inside xjs on this stratum is outside the
	// property's statement (it belongs to C10/C11); count it as inconclusive.
	PanicInconclusive bool
	Run               func(t *T)
}

// Property is a registered monitor.
type Property struct {
	ID          string
	Level       string // evidence level
	Rule        string
	Assumptions []string
	Strata      []*Stratum
	// Serial: run in a single worker process (the monitor parallelises itself).
	Serial bool
	// Race: build and run the worker under the race detector.
	Race bool
	// Setup is called once per worker before any case; Teardown after.
	Setup    func(w *Worker)
	Teardown func(w *Worker)
	// Finish lets a monitor add property-specific keys to coverage.
	Finish func(ev map[string]any, merged *Result)
}

var registry = map[string]*Property{}

func Register(p *Property) { registry[p.ID] = p }
func Lookup(id string) *Property {
	return registry[id]
}
func IDs() []string {
	var ids []string
	for k := range registry {
		ids = append(ids, k)
	}
	sort.Strings(ids)
	return ids
}

// Violation is one observed refutation.
type Violation struct {
	Property string         `json:"property"`
	Clause   string         `json:"clause"`
	Key      string         `json:"key"`
	What     string         `json:"what"`
	Stratum  string         `json:"stratum"`
	Index    int            `json:"index"`
	Seed     int64          `json:"seed"`
	Tier     string         `json:"tier"`
	Witness  map[string]any `json:"witness,omitempty"`
	// NoReplay: the evidence is a report of an external observer over the whole run (race detector log);
	// it cannot be re-derived from a single case and is not re-checked in a fresh process.
	NoReplay bool `json:"no_replay,omitempty"`
	// position of the case in its worker's plan: a violation that depends on what the process did before
	// (package-level state, builder histories) is re-checked by re-running the shard up to this position
	Shard int `json:"shard"`
	Of    int `json:"of"`
	Pos   int `json:"pos"`
	// NeedsHistory is set by the parent when the case alone did not reproduce but the shard prefix did
	NeedsHistory bool `json:"needs_history,omitempty"`
}

func (v *Violation) Class() string { return v.Property + "|" + v.Clause + "|" + v.Key }

// Result is what one worker observed.
type Result struct {
	Evaluations  int                        `json:"evaluations"`
	Distinct     []uint64                   `json:"distinct"`
	Counters     map[string]int64           `json:"counters"`
	Features     map[string]map[string]bool `json:"features"`
	Inconclusive map[string]int             `json:"inconclusive"`
	InconSamples map[string][]string        `json:"incon_samples"`
	Samples      []any                      `json:"samples"`
	Violations   []*Violation               `json:"violations"`
	PerStratum   map[string]int             `json:"per_stratum"`
	// ByStratum: the same counters per stratum, so that the evidence shows for every stratum what its cases observed
	// (a stratum whose cases are all dropped before the deciding comparison is visible as such)
	ByStratum map[string]map[string]int64 `json:"by_stratum"`
	Done      bool                        `json:"done"`
	CkptPos   int                         `json:"ckpt_pos"` // partial results: plan position not yet run
	distinct  map[uint64]struct{}
}

func NewResult() *Result {
	return &Result{
		Counters:     map[string]int64{},
		Features:     map[string]map[string]bool{},
		Inconclusive: map[string]int{},
		InconSamples: map[string][]string{},
		PerStratum:   map[string]int{},
		ByStratum:    map[string]map[string]int64{},
		distinct:     map[uint64]struct{}{},
	}
}

// Merge adds other into r.
func (r *Result) Merge(o *Result) {
	r.Evaluations += o.Evaluations
	for _, h := range o.Distinct {
		r.distinct[h] = struct{}{}
	}
	for h := range o.distinct {
		r.distinct[h] = struct{}{}
	}
	for k, v := range o.Counters {
		r.Counters[k] += v
	}
	for st, m := range o.ByStratum {
		if r.ByStratum == nil {
			r.ByStratum = map[string]map[string]int64{}
		}
		if r.ByStratum[st] == nil {
			r.ByStratum[st] = map[string]int64{}
		}
		for k, v := range m {
			r.ByStratum[st][k] += v
		}
	}
	for s, m := range o.Features {
		if r.Features[s] == nil {
			r.Features[s] = map[string]bool{}
		}
		for k := range m {
			r.Features[s][k] = true
		}
	}
	for k, v := range o.Inconclusive {
		r.Inconclusive[k] += v
	}
	for k, v := range o.InconSamples {
		for _, s := range v {
			if len(r.InconSamples[k]) < 3 {
				r.InconSamples[k] = append(r.InconSamples[k], s)
			}
		}
	}
	for _, s := range o.Samples {
		if len(r.Samples) < 10 {
			r.Samples = append(r.Samples, s)
		}
	}
	r.Violations = append(r.Violations, o.Violations...)
	for k, v := range o.PerStratum {
		r.PerStratum[k] += v
	}
}

func (r *Result) DistinctCount() int { return len(r.distinct) }

func (r *Result) finalize() {
	r.Distinct = r.Distinct[:0]
	for h := range r.distinct {
		r.Distinct = append(r.Distinct, h)
	}
}

// Worker is the per-process state.
type Worker struct {
	Prop    *Property
	Tier    string
	Seed    int64
	Shard   int
	Of      int
	Res     *Result
	journal *os.File
	// State lets Setup stash engines etc.
	State map[string]any
	// watchdog
	caseStartCPU atomic.Int64 // nanoseconds of process CPU at case start; 0 = idle
	curCase      atomic.Value // string
	CPULimit     time.Duration
}

// T is the handle a stratum's Run receives for one case.
type T struct {
	W       *Worker
	Stratum *Stratum
	Index   int
	Pos     int
	rng     *rand.Rand
	nviol   int
}

func subSeed(seed int64, prop, stratum string, idx int) (uint64, uint64) {
	h := fnv.New128a()
	var b [8]byte
	binary.LittleEndian.PutUint64(b[:], uint64(seed))
	h.Write(b[:])
	h.Write([]byte(prop))
	h.Write([]byte{0})
	h.Write([]byte(stratum))
	h.Write([]byte{0})
	binary.LittleEndian.PutUint64(b[:], uint64(idx))
	h.Write(b[:])
	s := h.Sum(nil)
	return binary.LittleEndian.Uint64(s[:8]), binary.LittleEndian.Uint64(s[8:])
}

// Rand returns the case's deterministic PRNG.
func (t *T) Rand() *rand.Rand {
	if t.rng == nil {
		a, b := subSeed(t.W.Seed, t.W.Prop.ID, t.Stratum.Name, t.Index)
		t.rng = rand.New(rand.NewPCG(a, b))
	}
	return t.rng
}

func (t *T) Tier() string   { return t.W.Tier }
func (t *T) Thorough() bool { return t.W.Tier == "thorough" }

// Violate records a violation of the property under test.
func (t *T) Violate(clause, key, what string, witness map[string]any) {
	t.nviol++
	// keep at most 3 witnesses per class per worker
	n := 0
	for _, v := range t.W.Res.Violations {
		if v.Clause == clause && v.Key == key {
			n++
		}
	}
	t.W.Res.Counters["violations_raw"]++
	if n >= 3 {
		return
	}
	t.W.Res.Violations = append(t.W.Res.Violations, &Violation{
		Property: t.W.Prop.ID, Clause: clause, Key: key, What: what,
		Stratum: t.Stratum.Name, Index: t.Index, Seed: t.W.Seed, Tier: t.W.Tier, Witness: witness,
		Shard: t.W.Shard, Of: t.W.Of, Pos: t.Pos,
	})
}

// Inconclusive records that (part of) this case could not be decided.
func (t *T) Inconclusive(reason, sample string) {
	t.W.Res.Inconclusive[reason]++
	if len(t.W.Res.InconSamples[reason]) < 3 {
		sample = fmt.Sprintf("[%s:%d] %s", t.Stratum.Name, t.Index, sample)
		if len(sample) > 1500 {
			sample = sample[:1500] + "…"
		}
		t.W.Res.InconSamples[reason] = append(t.W.Res.InconSamples[reason], sample)
	}
}

// Distinct notes a non-trivial case identified by key (hashed into a set).
func (t *T) Distinct(key string) {
	h := fnv.New64a()
	h.Write([]byte(key))
	t.W.Res.distinct[h.Sum64()] = struct{}{}
}

func (t *T) Count(name string, n int) {
	t.W.Res.Counters[name] += int64(n)
	if t.Stratum != nil {
		if t.W.Res.ByStratum == nil {
			t.W.Res.ByStratum = map[string]map[string]int64{}
		}
		m := t.W.Res.ByStratum[t.Stratum.Name]
		if m == nil {
			m = map[string]int64{}
			t.W.Res.ByStratum[t.Stratum.Name] = m
		}
		m[name] += int64(n)
	}
}

func (t *T) Feature(set, item string) {
	m := t.W.Res.Features[set]
	if m == nil {
		m = map[string]bool{}
		t.W.Res.Features[set] = m
	}
	m[item] = true
}

// Sample keeps a few literal cases for the evidence file.
func (t *T) Sample(v any) {
	if len(t.W.Res.Samples) < 4 {
		t.W.Res.Samples = append(t.W.Res.Samples, v)
	}
}

// WantSample reports whether another sample is still wanted (to avoid building one).
func (t *T) WantSample() bool { return len(t.W.Res.Samples) < 4 && t.Index%7 == 0 }

// Guard runs f and converts a panic inside it into a violation (or an
// inconclusive, for strata that say so). It returns false if f panicked.
func (t *T) Guard(what string, witness func() map[string]any, f func()) (ok bool) {
	defer func() {
		if r := recover(); r != nil {
			ok = false
			st := string(debug.Stack())
			site := panicSite(st)
			if t.Stratum.PanicInconclusive {
				t.Inconclusive("panic in xjs outside this property's statement: "+site, fmt.Sprint(r))
				return
			}
			w := map[string]any{}
			if witness != nil {
				w = witness()
			}
			w["panic"] = fmt.Sprint(r)
			w["stack"] = trimStack(st)
			t.Violate("panic", site, what+": panic: "+fmt.Sprint(r), w)
		}
	}()
	f()
	return true
}

// panicSite returns the innermost xjs function on the stack (stable across line edits).
func panicSite(st string) string {
	for _, ln := range strings.Split(st, "\n") {
		if strings.HasPrefix(ln, "github.com/xjslang/xjs/") {
			s := strings.TrimPrefix(ln, "github.com/xjslang/xjs/")
			if i := strings.LastIndex(s, "("); i > 0 {
				s = s[:i]
			}
			return s
		}
	}
	return "outside-xjs"
}

func trimStack(st string) string {
	lines := strings.Split(st, "\n")
	if len(lines) > 40 {
		lines = lines[:40]
	}
	return strings.Join(lines, "\n")
}

func cpuNow() time.Duration {
	var ru syscall.Rusage
	syscall.Getrusage(syscall.RUSAGE_SELF, &ru)
	return time.Duration(ru.Utime.Nano() + ru.Stime.Nano())
}

// CaseRef names one case.
type CaseRef struct {
	Stratum string
	Index   int
}

// Plan lists the cases of this worker's shard in execution order.
func (w *Worker) Plan() []CaseRef {
	var plan []CaseRef
	for _, s := range w.Prop.Strata {
		n := s.Quick
		if w.Tier == "thorough" {
			n = s.Thorough
		}
		for i := w.Shard; i < n; i += w.Of {
			plan = append(plan, CaseRef{s.Name, i})
		}
	}
	return plan
}

func (w *Worker) stratum(name string) *Stratum {
	for _, s := range w.Prop.Strata {
		if s.Name == name {
			return s
		}
	}
	return nil
}

// RunWorker executes the shard (or the single case `only`) and writes the result file.
func RunWorker(w *Worker, skip int, upto int, only *CaseRef, journalPath, outPath string) {
	w.Res = NewResult()
	w.State = map[string]any{}
	if w.CPULimit == 0 {
		w.CPULimit = 10 * time.Second
	}
	if journalPath != "" {
		f, err := os.OpenFile(journalPath, os.O_CREATE|os.O_WRONLY|os.O_TRUNC, 0o644)
		if err == nil {
			w.journal = f
		}
	}
	if w.Prop.Setup != nil {
		w.Prop.Setup(w)
	}
	plan := w.Plan()
	if only != nil {
		plan = []CaseRef{*only}
		skip = 0
	}
	// watchdog on process CPU time consumed by the current case
	stop := make(chan struct{})
	go func() {
		tk := time.NewTicker(250 * time.Millisecond)
		defer tk.Stop()
		for {
			select {
			case <-stop:
				return
			case <-tk.C:
				st := w.caseStartCPU.Load()
				if st == 0 {
					continue
				}
				if cpuNow()-time.Duration(st) > w.CPULimit {
					c, _ := w.curCase.Load().(string)
					fmt.Fprintf(os.Stderr, "VERIF-CPU-BUDGET case=%s\n", c)
					os.Exit(3)
				}
			}
		}
	}()
	if upto >= 0 && upto+1 < len(plan) && only == nil {
		plan = plan[:upto+1]
	}
	lastCkpt := time.Now()
	for pos := skip; pos < len(plan); pos++ {
		c := plan[pos]
		if outPath != "" && time.Since(lastCkpt) > 2*time.Second {
			// checkpoint: if this process dies, the parent still gets what was observed so far
			w.Res.finalize()
			w.Res.CkptPos = pos
			if b, err := json.Marshal(w.Res); err == nil {
				os.WriteFile(outPath+".partial.tmp", b, 0o644)
				os.Rename(outPath+".partial.tmp", outPath+".partial")
			}
			lastCkpt = time.Now()
		}
		s := w.stratum(c.Stratum)
		if s == nil {
			continue
		}
		if w.journal != nil {
			rec := fmt.Sprintf("%-60s\n", fmt.Sprintf("%d %s %d", pos, c.Stratum, c.Index))
			w.journal.WriteAt([]byte(rec), 0)
		}
		w.curCase.Store(fmt.Sprintf("%s:%d", c.Stratum, c.Index))
		w.caseStartCPU.Store(int64(cpuNow()) + 1)
		t := &T{W: w, Stratum: s, Index: c.Index, Pos: pos}
		t.Guard("case "+c.Stratum, nil, func() { s.Run(t) })
		w.caseStartCPU.Store(0)
		w.Res.Evaluations++
		w.Res.PerStratum[c.Stratum]++
	}
	close(stop)
	if w.Prop.Teardown != nil {
		w.Prop.Teardown(w)
	}
	w.Res.Done = true
	w.Res.finalize()
	b, _ := json.Marshal(w.Res)
	if outPath == "" {
		os.Stdout.Write(b)
	} else {
		tmp := outPath + ".tmp"
		os.WriteFile(tmp, b, 0o644)
		os.Rename(tmp, outPath)
	}
	runtime.KeepAlive(w)
}

// Pick returns a random element.
func Pick[E any](r *rand.Rand, xs []E) E { return xs[r.IntN(len(xs))] }

// Chance returns true with probability p.
func Chance(r *rand.Rand, p float64) bool { return r.Float64() < p }
