package fw

import (
	"bytes"
	"crypto/sha1"
	"encoding/json"
	"fmt"
	"os"
	"os/exec"
	"path/filepath"
	"runtime"
	"sort"
	"strconv"
	"strings"
	"sync"
	"time"
)

const VerifRoot = "/verif"

// OutRoot is where evidence, replays and run directories go: /verif, or $VERIF_OUT when a scratch copy of the
// repository is being checked (mutation runs) so that parallel runs do not overwrite each other's files.
func OutRoot() string {
	if o := os.Getenv("VERIF_OUT"); o != "" {
		return o
	}
	return VerifRoot
}

// Finding is one entry of known_findings.json.
type Finding struct {
	ID       string `json:"id"`
	Property string `json:"property"`
	Clause   string `json:"clause"`
	Key      string `json:"key"`
	Status   string `json:"status"` // open | fixed
	Commit   string `json:"commit,omitempty"`
	What     string `json:"what"`
	Witness  any    `json:"witness,omitempty"`
}

func LoadFindings() []Finding {
	b, err := os.ReadFile(filepath.Join(VerifRoot, "known_findings.json"))
	if err != nil {
		return nil
	}
	var doc struct {
		Findings []Finding `json:"findings"`
	}
	if json.Unmarshal(b, &doc) != nil {
		return nil
	}
	return doc.Findings
}

type shardState struct {
	shard    int
	skip     int
	restarts int
}

// CheckOpts configure a parent run.
type CheckOpts struct {
	Prop    string
	Tier    string
	Seed    int64
	Self    string // path of worker binary
	Workers int
}

func selfExe() string {
	p, err := os.Executable()
	if err != nil {
		return os.Args[0]
	}
	return p
}

// coverDir, when set, is where coverage-instrumented workers drop their counter files (GOCOVERDIR).
var coverDir string

// raceLog, when set, makes workers run with GORACE logging to that path prefix.
var raceLog string

func runOne(exe string, args []string, timeout time.Duration) (out []byte, errOut []byte, code int, timedOut bool) {
	cmd := exec.Command(exe, args...)
	var so, se bytes.Buffer
	cmd.Stdout = &so
	cmd.Stderr = &se
	cmd.Env = append(os.Environ(), "GOMAXPROCS=2", "XJSVERIF_PLAIN="+selfExe())
	if raceLog != "" {
		cmd.Env = append(cmd.Env, "GORACE=halt_on_error=0 log_path="+raceLog, "VERIF_RACE_LOG="+raceLog)
	}
	if coverDir != "" {
		cmd.Env = append(cmd.Env, "GOCOVERDIR="+coverDir)
	}
	if err := cmd.Start(); err != nil {
		return nil, []byte(err.Error()), -1, false
	}
	done := make(chan error, 1)
	go func() { done <- cmd.Wait() }()
	select {
	case err := <-done:
		code = 0
		if err != nil {
			if ee, ok := err.(*exec.ExitError); ok {
				code = ee.ExitCode()
			} else {
				code = -1
			}
		}
	case <-time.After(timeout):
		cmd.Process.Kill()
		<-done
		timedOut = true
		code = -2
	}
	return so.Bytes(), se.Bytes(), code, timedOut
}

func tail(b []byte, n int) string {
	if len(b) > n {
		b = b[len(b)-n:]
	}
	return string(b)
}

// RunCheck is the parent: shards the work, supervises workers, re-checks
// violations in fresh processes, matches known findings, writes evidence.
// Returns the process exit code.
func RunCheck(o CheckOpts) int {
	start := time.Now()
	p := Lookup(o.Prop)
	if p == nil {
		fmt.Fprintf(os.Stderr, "unknown property %s\n", o.Prop)
		return 2
	}
	exe := o.Self
	if exe == "" {
		exe = selfExe()
	}
	nw := o.Workers
	if nw <= 0 {
		nw = runtime.NumCPU()
		if nw > 16 {
			nw = 16
		}
	}
	if p.Serial {
		nw = 1
	}
	runDir := filepath.Join(OutRoot(), ".build", "run", o.Prop+"-"+o.Tier)
	os.RemoveAll(runDir)
	os.MkdirAll(runDir, 0o755)
	if p.Race {
		raceLog = filepath.Join(runDir, "race")
	}
	if os.Getenv("XJSVERIF_COVER") == "1" {
		coverDir = filepath.Join(runDir, "cov")
		os.MkdirAll(coverDir, 0o755)
	}

	merged := NewResult()
	var mu sync.Mutex
	var wg sync.WaitGroup
	crashes := []*Violation{}
	machinery := []string{}
	wallBudget := 45 * time.Minute
	if o.Tier == "thorough" {
		wallBudget = 4 * time.Hour
	}

	for sh := 0; sh < nw; sh++ {
		wg.Add(1)
		go func(sh int) {
			defer wg.Done()
			st := shardState{shard: sh}
			for {
				out := filepath.Join(runDir, fmt.Sprintf("w%d.%d.json", sh, st.restarts))
				jr := filepath.Join(runDir, fmt.Sprintf("w%d.journal", sh))
				args := []string{"worker", "-prop", o.Prop, "-tier", o.Tier, "-seed", strconv.FormatInt(o.Seed, 10),
					"-shard", strconv.Itoa(sh), "-of", strconv.Itoa(nw), "-skip", strconv.Itoa(st.skip),
					"-journal", jr, "-out", out}
				_, se, code, timedOut := runOne(exe, args, wallBudget)
				if b, err := os.ReadFile(out); err == nil && code == 0 {
					var r Result
					if json.Unmarshal(b, &r) == nil && r.Done {
						mu.Lock()
						merged.Merge(&r)
						mu.Unlock()
						os.Remove(out)
						return
					}
				}
				// abnormal end: keep what the dead worker had checkpointed, then find the case from the journal
				ckpt := st.skip
				if b, err := os.ReadFile(out + ".partial"); err == nil {
					var r Result
					if json.Unmarshal(b, &r) == nil {
						mu.Lock()
						merged.Merge(&r)
						mu.Unlock()
						ckpt = r.CkptPos
					}
					os.Remove(out + ".partial")
				}
				jb, _ := os.ReadFile(jr)
				f := strings.Fields(string(jb))
				mu.Lock()
				if timedOut {
					merged.Inconclusive["wall-clock watchdog fired for a shard"]++
					mu.Unlock()
					return
				}
				if len(f) < 3 {
					machinery = append(machinery, fmt.Sprintf("worker %d died (code %d) before its first case: %s", sh, code, tail(se, 2000)))
					mu.Unlock()
					return
				}
				pos, _ := strconv.Atoi(f[0])
				idx, _ := strconv.Atoi(f[2])
				kind := "fatal"
				if code == 3 {
					kind = "cpu-budget"
				}
				crashes = append(crashes, &Violation{Property: o.Prop, Clause: kind, Key: f[1], Stratum: f[1], Index: idx,
					Seed: o.Seed, Tier: o.Tier, What: "worker died on this case: " + tail(se, 1500), Shard: sh, Of: nw, Pos: pos})
				// cases completed after the last checkpoint are lost with the dead worker; count conservatively
				if pos > ckpt {
					merged.Counters["cases_lost_with_dead_worker"] += int64(pos - ckpt)
				}
				mu.Unlock()
				st.skip = pos + 1
				st.restarts++
				if st.restarts > 20 {
					mu.Lock()
					machinery = append(machinery, fmt.Sprintf("worker %d: more than 20 restarts", sh))
					mu.Unlock()
					return
				}
			}
		}(sh)
	}
	wg.Wait()
	codeCov := collectCoverage(coverDir)
	coverDir = "" // replays below run without writing counter files

	// planned cases
	planned := 0
	for _, s := range p.Strata {
		if o.Tier == "thorough" {
			planned += s.Thorough
		} else {
			planned += s.Quick
		}
	}

	// Re-check every violation class in a fresh process (first witness per class).
	findings := LoadFindings()
	type classInfo struct {
		v         *Violation
		confirmed bool
	}
	classes := map[string]*classInfo{}
	var order []string
	for _, v := range append(merged.Violations, crashes...) {
		if _, ok := classes[v.Class()]; !ok {
			classes[v.Class()] = &classInfo{v: v}
			order = append(order, v.Class())
		}
	}
	sort.Strings(order)
	var cmu sync.Mutex
	sem := make(chan struct{}, nw)
	var cwg sync.WaitGroup
	for _, cl := range order {
		ci := classes[cl]
		cwg.Add(1)
		sem <- struct{}{}
		go func(ci *classInfo) {
			defer cwg.Done()
			defer func() { <-sem }()
			ok := ci.v.NoReplay || ReplayCase(exe, ci.v)
			cmu.Lock()
			ci.confirmed = ok
			cmu.Unlock()
		}(ci)
	}
	cwg.Wait()

	nviol := 0
	known := map[string]bool{}
	var lines []string
	for _, cl := range order {
		ci := classes[cl]
		v := ci.v
		if !ci.confirmed {
			merged.Inconclusive["violation did not reproduce in a fresh process (flaky): "+v.Clause]++
			continue
		}
		if f := matchFinding(findings, v); f != nil {
			if !known[f.ID] {
				known[f.ID] = true
				lines = append(lines, fmt.Sprintf("KNOWN-FINDING: property=%s %s", o.Prop, f.What))
			}
			continue
		}
		nviol++
		if nviol > maxReported {
			continue // counted; the first maxReported classes are reported with replay files
		}
		path := writeReplay(v)
		lines = append(lines, fmt.Sprintf("VIOLATION property=%s replay=%s", o.Prop, path))
		fmt.Fprintf(os.Stderr, "  class=%s  %s\n", v.Class(), v.What)
	}

	decided := merged.Evaluations
	tooFew := planned > 0 && decided*10 < planned
	incon := 0
	for _, n := range merged.Inconclusive {
		incon += n
	}

	// an oracle that is inconsistent with its own cross-check on more than 1 % of the cases is broken
	if sc := merged.Counters["oracle_selfcheck_failures"]; sc > 0 && sc*100 > int64(merged.Evaluations) {
		machinery = append(machinery, fmt.Sprintf("%d oracle self-check failures in %d cases: the oracle, not xjs, needs attention", sc, merged.Evaluations))
	}
	writeEvidence(p, o, merged, planned, nviol, len(known), machinery, codeCov, time.Since(start))

	for _, l := range lines {
		fmt.Println(l)
	}
	if nviol > maxReported {
		fmt.Printf("(%d further violation classes not listed; %d in all)\n", nviol-maxReported, nviol)
	}
	fmt.Printf("%s %s seed=%d: evaluations=%d/%d distinct=%d violations=%d known=%d inconclusive=%d wall=%.1fs\n",
		o.Prop, o.Tier, o.Seed, merged.Evaluations, planned, merged.DistinctCount(), nviol, len(known), incon, time.Since(start).Seconds())
	if len(merged.Inconclusive) > 0 {
		keys := make([]string, 0)
		for k := range merged.Inconclusive {
			keys = append(keys, k)
		}
		sort.Strings(keys)
		for _, k := range keys {
			fmt.Printf("  inconclusive[%s]=%d\n", k, merged.Inconclusive[k])
		}
	}
	if nviol > 0 {
		return 1
	}
	if len(machinery) > 0 || tooFew {
		for _, m := range machinery {
			fmt.Fprintln(os.Stderr, "MACHINERY:", m)
		}
		if tooFew {
			fmt.Fprintf(os.Stderr, "MACHINERY: decided %d of %d planned cases (<10%%): too little observed to say the property held\n", decided, planned)
		}
		return 2
	}
	return 0
}

// maxReported bounds the number of violation classes that get a VIOLATION line and a replay file in one run (a change
// that breaks a property everywhere can produce hundreds of classes; all are counted in the evidence).
const maxReported = 40

func matchFinding(fs []Finding, v *Violation) *Finding {
	for i := range fs {
		f := &fs[i]
		if f.Status == "open" && f.Property == v.Property && f.Clause == v.Clause && f.Key == v.Key {
			return f
		}
	}
	return nil
}

// ReplayCase re-runs the single case of v in a fresh process; true if the same class is observed again.
func ReplayCase(exe string, v *Violation) bool {
	if replayArgs(exe, v, []string{"-only", fmt.Sprintf("%s:%d", v.Stratum, v.Index)}) {
		return true
	}
	// not reproducible alone: the violation may depend on what the process did before this case
	// (package-level state, earlier builders): re-run the worker's plan up to and including it
	if v.Of > 0 {
		tries := 1
		if p := Lookup(v.Property); p != nil && p.Race {
			tries = 4 // schedule-dependent
		}
		for i := 0; i < tries; i++ {
			if replayArgs(exe, v, []string{"-shard", strconv.Itoa(v.Shard), "-of", strconv.Itoa(v.Of), "-upto", strconv.Itoa(v.Pos)}) {
				v.NeedsHistory = true
				return true
			}
		}
	}
	return false
}

func replayArgs(exe string, v *Violation, sel []string) bool {
	args := append([]string{"worker", "-prop", v.Property, "-tier", v.Tier, "-seed", strconv.FormatInt(v.Seed, 10)}, sel...)
	so, _, code, timedOut := runOne(exe, args, 20*time.Minute)
	if v.Clause == "fatal" || v.Clause == "cpu-budget" {
		if timedOut {
			return false
		}
		if v.Clause == "cpu-budget" {
			return code == 3
		}
		return code != 0 && code != 3
	}
	if code != 0 {
		return false
	}
	var r Result
	if json.Unmarshal(so, &r) != nil {
		return false
	}
	for _, x := range r.Violations {
		if x.Class() == v.Class() {
			if v.Witness == nil {
				v.Witness = x.Witness
			}
			return true
		}
	}
	return false
}

func writeReplay(v *Violation) string {
	dir := filepath.Join(OutRoot(), "replays", v.Property)
	os.MkdirAll(dir, 0o755)
	h := sha1.Sum([]byte(v.Class()))
	path := filepath.Join(dir, fmt.Sprintf("%x.json", h[:6]))
	b, _ := json.MarshalIndent(v, "", " ")
	os.WriteFile(path, b, 0o644)
	return path
}

// RunReplay re-runs a replay file; exit 1 + VIOLATION line if it still fails.
func RunReplay(path string) int {
	b, err := os.ReadFile(path)
	if err != nil {
		fmt.Fprintln(os.Stderr, err)
		return 2
	}
	var v Violation
	if err := json.Unmarshal(b, &v); err != nil {
		fmt.Fprintln(os.Stderr, err)
		return 2
	}
	v.Witness = nil
	if ReplayCase(selfExe(), &v) {
		fmt.Printf("VIOLATION property=%s replay=%s\n", v.Property, path)
		wb, _ := json.MarshalIndent(v.Witness, "", " ")
		fmt.Printf("class=%s\n%s\nwitness=%s\n", v.Class(), v.What, wb)
		return 1
	}
	fmt.Printf("replay %s: no longer violates (class %s)\n", path, v.Class())
	return 0
}

// collectCoverage turns the counter files that the coverage-instrumented workers wrote into evidence: which
// statements of xjs the monitored executions actually reached (per package, and every function not fully reached).
func collectCoverage(dir string) map[string]any {
	if dir == "" {
		return nil
	}
	defer os.RemoveAll(dir)
	ents, _ := os.ReadDir(dir)
	if len(ents) == 0 {
		return map[string]any{"note": "no counter files were written"}
	}
	res := map[string]any{"counter_files": len(ents)}
	out, err := exec.Command("go", "tool", "covdata", "percent", "-i="+dir).Output()
	if err != nil {
		return map[string]any{"note": "go tool covdata failed: " + err.Error()}
	}
	pk := map[string]string{}
	for _, l := range strings.Split(string(out), "\n") {
		f := strings.Fields(l)
		if len(f) >= 3 && strings.Contains(f[0], "xjslang/xjs/") {
			pk[strings.TrimPrefix(f[0], "github.com/xjslang/xjs/")] = f[2]
		}
	}
	res["xjs_statement_coverage_percent"] = pk
	if out, err = exec.Command("go", "tool", "covdata", "func", "-i="+dir).Output(); err == nil {
		var partial, never []string
		neverPkg := map[string]int{}
		nfun := 0
		for _, l := range strings.Split(string(out), "\n") {
			f := strings.Fields(l)
			if len(f) != 3 || !strings.Contains(f[0], "xjslang/xjs/") {
				continue
			}
			nfun++
			name := strings.TrimPrefix(strings.TrimSuffix(f[0], ":"), "github.com/xjslang/xjs/") + " " + f[1]
			switch f[2] {
			case "100.0%":
			case "0.0%":
				never = append(never, name)
				neverPkg[strings.SplitN(name, "/", 2)[0]]++
			default:
				partial = append(partial, name+" "+f[2])
			}
		}
		sort.Strings(partial)
		sort.Strings(never)
		res["xjs_functions_total"] = nfun
		res["xjs_functions_fully_reached"] = nfun - len(partial) - len(never)
		res["xjs_functions_partly_reached"] = partial
		res["xjs_functions_never_reached_per_package"] = neverPkg
		if len(never) > 40 {
			never = append(never[:40], fmt.Sprintf("... and %d more", len(never)-40))
		}
		res["xjs_functions_never_reached"] = never
	}
	return res
}

func writeEvidence(p *Property, o CheckOpts, r *Result, planned, nviol, nknown int, machinery []string, codeCov map[string]any, wall time.Duration) {
	cov := map[string]any{}
	cov["evaluations"] = r.Evaluations
	cov["distinct_nontrivial"] = r.DistinctCount()
	cov["rule"] = p.Rule
	samples := r.Samples
	if len(samples) == 0 {
		samples = []any{"(no sample recorded)"}
	}
	cov["samples"] = samples
	cov["planned_cases"] = planned
	strata := map[string]any{}
	allEx := true
	for _, s := range p.Strata {
		n := s.Quick
		if o.Tier == "thorough" {
			n = s.Thorough
		}
		if n == 0 {
			continue
		}
		strata[s.Name] = map[string]any{"planned": n, "run": r.PerStratum[s.Name], "exhaustive": s.Exhaustive, "observed": r.ByStratum[s.Name]}
		if !s.Exhaustive {
			allEx = false
		}
	}
	cov["strata"] = strata
	cov["exhaustive"] = allEx && len(strata) > 0
	cov["counters"] = r.Counters
	feat := map[string]any{}
	for set, m := range r.Features {
		keys := make([]string, 0, len(m))
		for k := range m {
			keys = append(keys, k)
		}
		sort.Strings(keys)
		e := map[string]any{"count": len(keys)}
		if len(keys) <= 80 {
			e["items"] = keys
		} else {
			e["items_sample"] = keys[:80]
		}
		feat[set] = e
	}
	cov["features_observed"] = feat
	cov["inconclusive"] = r.Inconclusive
	cov["inconclusive_samples"] = r.InconSamples
	cov["known_findings_reported"] = nknown
	if len(machinery) > 0 {
		cov["machinery_errors"] = machinery
	}
	if p.Level == "translation_validation" {
		cov["programs"] = int(r.Counters["programs"])
		cov["disagreements_checked"] = int(r.Counters["disagreements_checked"])
	}
	if codeCov != nil {
		cov["code_reached_by_the_monitored_executions"] = codeCov
	}
	if p.Finish != nil {
		p.Finish(cov, r)
	}
	ev := map[string]any{
		"property_id": p.ID,
		"tier":        o.Tier,
		"seed":        o.Seed,
		"level":       p.Level,
		"coverage":    cov,
		"assumptions": p.Assumptions,
		"wall_s":      wall.Seconds(),
		"violations":  nviol,
	}
	b, _ := json.MarshalIndent(ev, "", " ")
	os.MkdirAll(filepath.Join(OutRoot(), "evidence"), 0o755)
	os.WriteFile(filepath.Join(OutRoot(), "evidence", p.ID+".json"), b, 0o644)
}
