// Native Go fuzz targets wrapping the C10 and C11 monitors (coverage-guided exploration of "all byte strings").
package fuzz

import (
	"testing"

	"verif/mon"
)

var seeds = []string{
	"", "a", "let x = 1;", "function f(a, b) { return a + b }", "if (a) b; else c", "for (let i = 0; i < 3; i++) { x += i }", "while (x) x--",
	"\"str\\x41\\u00e9\\u{1F600}\"", "'it\\'s'", "`raw\\`x\\\\`", "0x1F 0b101 0o17 1.5e-3 1e+", "a == b != c <= d >= e && f || !g", "x++ + ++y - --z",
	"// comment\n/ 2", "a\r\nb\rc", "\"unterminated", "`unterminated", "\"a\\", "{[(", ")]}", "a.b[c](d).e", "({a: 1, 'b': 2, 3: c})", "return\nx", "a\n++b", "\x00\xff",
}

func FuzzLex(f *testing.F) {
	for _, s := range seeds {
		f.Add([]byte(s))
	}
	f.Fuzz(func(t *testing.T, data []byte) {
		if len(data) > 4096 {
			return
		}
		if fd, _, _ := mon.LexCheck(string(data)); fd != nil {
			t.Fatalf("C10 %s|%s: %s", fd.Clause, fd.Key, fd.What)
		}
	})
}

func FuzzParse(f *testing.F) {
	for _, s := range seeds {
		f.Add([]byte(s))
	}
	f.Fuzz(func(t *testing.T, data []byte) {
		if len(data) > 2048 {
			return
		}
		if fd := mon.ParseContractFinding(string(data)); fd != nil {
			t.Fatalf("C11 %s|%s: %s", fd.Clause, fd.Key, fd.What)
		}
	})
}
