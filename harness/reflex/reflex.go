// Package reflex is an independent tokenizer of the subset (plus // comments),
// written from the ECMAScript lexical grammar. It is used on generated output
// and as a byte-level reference; it never looks at xjs.
package reflex

type Kind int

const (
	Ident Kind = iota
	Keyword
	Num
	Str
	Tpl
	Punct
	Comment
	Illegal
)

type Item struct {
	Kind      Kind
	Text      string
	Off, End  int
	Line, Col int  // 0-based, bytes; line break = LF
	NLBefore  bool // a line break lies between the previous token (not comment) and this one
	OwnLine   bool // comments: only whitespace precedes on its line
	BlankRun  int  // number of blank lines directly before this item
}

var keywords = map[string]bool{"function": true, "let": true, "if": true, "else": true, "while": true, "for": true, "return": true, "true": true, "false": true, "null": true}

func isIdStart(c byte) bool {
	return c == '_' || c == '$' || (c >= 'a' && c <= 'z') || (c >= 'A' && c <= 'Z') || c >= 0x80
}
func isDigit(c byte) bool  { return c >= '0' && c <= '9' }
func isIdPart(c byte) bool { return isIdStart(c) || isDigit(c) }

var puncts2 = []string{"==", "!=", "<=", ">=", "&&", "||", "++", "--", "+=", "-="}

// Scan tokenizes src. Comments are returned as items of kind Comment.
func Scan(src string) []Item {
	var out []Item
	i, line, lineStart := 0, 0, 0
	nl := false
	blank := 0
	lineHasContent := false
	n := len(src)
	emit := func(k Kind, off, end int, l, c int) {
		it := Item{Kind: k, Text: src[off:end], Off: off, End: end, Line: l, Col: c, NLBefore: nl, BlankRun: blank}
		if k == Comment {
			it.OwnLine = !lineHasContent
		} else {
			nl = false
		}
		blank = 0
		out = append(out, it)
	}
	for i < n {
		c := src[i]
		switch {
		case c == '\n':
			if !lineHasContent {
				blank++
			}
			i++
			line++
			lineStart = i
			nl = true
			lineHasContent = false
		case c == ' ' || c == '\t' || c == '\r':
			i++
		case c == '/' && i+1 < n && src[i+1] == '/':
			s := i
			for i < n && src[i] != '\n' {
				i++
			}
			emit(Comment, s, i, line, s-lineStart)
			lineHasContent = true
		case isIdStart(c):
			s := i
			for i < n && isIdPart(src[i]) {
				i++
			}
			k := Ident
			if keywords[src[s:i]] {
				k = Keyword
			}
			emit(k, s, i, line, s-lineStart)
			lineHasContent = true
		case isDigit(c):
			s := i
			if c == '0' && i+1 < n && (src[i+1] == 'x' || src[i+1] == 'X' || src[i+1] == 'b' || src[i+1] == 'B' || src[i+1] == 'o' || src[i+1] == 'O') {
				i += 2
				for i < n && (isDigit(src[i]) || (src[i] >= 'a' && src[i] <= 'f') || (src[i] >= 'A' && src[i] <= 'F')) {
					i++
				}
			} else {
				for i < n && isDigit(src[i]) {
					i++
				}
				if i+1 < n && src[i] == '.' && isDigit(src[i+1]) {
					i++
					for i < n && isDigit(src[i]) {
						i++
					}
				}
				if i < n && (src[i] == 'e' || src[i] == 'E') {
					j := i + 1
					if j < n && (src[j] == '+' || src[j] == '-') {
						j++
					}
					if j < n && isDigit(src[j]) {
						i = j
						for i < n && isDigit(src[i]) {
							i++
						}
					}
				}
			}
			emit(Num, s, i, line, s-lineStart)
			lineHasContent = true
		case c == '"' || c == '\'' || c == '`':
			s := i
			l0, c0 := line, i-lineStart
			i++
			for i < n {
				if src[i] == '\\' && i+1 < n {
					if src[i+1] == '\n' {
						line++
						lineStart = i + 2
					}
					i += 2
					continue
				}
				if src[i] == '\n' {
					line++
					lineStart = i + 1
				}
				if src[i] == c {
					i++
					break
				}
				i++
			}
			k := Str
			if c == '`' {
				k = Tpl
			}
			emit(k, s, i, l0, c0)
			lineHasContent = true
		default:
			s := i
			k := Punct
			if i+1 < n {
				two := src[i : i+2]
				for _, p := range puncts2 {
					if p == two {
						i += 2
						break
					}
				}
			}
			if i == s {
				i++
				switch c {
				case '=', '!', '<', '>', '+', '-', '*', '/', '%', ',', ';', ':', '.', '(', ')', '{', '}', '[', ']':
				default:
					k = Illegal
				}
			}
			emit(k, s, i, line, s-lineStart)
			lineHasContent = true
		}
	}
	return out
}

// Tokens filters out comments.
func Tokens(items []Item) []Item {
	var out []Item
	for _, it := range items {
		if it.Kind != Comment {
			out = append(out, it)
		}
	}
	return out
}

// StatementSemis returns the indices (into items) of ';' tokens that terminate statements,
// i.e. all ';' except the two inside each `for (...)` header.
func StatementSemis(items []Item) map[int]bool {
	res := map[int]bool{}
	type fr struct{ forHeader bool }
	var stack []fr
	prevKw := ""
	for i, it := range items {
		if it.Kind == Comment {
			continue
		}
		switch {
		case it.Kind == Punct && it.Text == "(":
			stack = append(stack, fr{forHeader: prevKw == "for"})
		case it.Kind == Punct && (it.Text == "[" || it.Text == "{"):
			stack = append(stack, fr{})
		case it.Kind == Punct && (it.Text == ")" || it.Text == "]" || it.Text == "}"):
			if len(stack) > 0 {
				stack = stack[:len(stack)-1]
			}
		case it.Kind == Punct && it.Text == ";":
			if !(len(stack) > 0 && stack[len(stack)-1].forHeader) {
				res[i] = true
			}
		}
		if it.Kind == Keyword {
			prevKw = it.Text
		} else {
			prevKw = ""
		}
	}
	return res
}
