package gen

import (
	"fmt"
	"math/rand/v2"
	"strings"
)

// Random lexemes: identifiers, numbers, string and backtick bodies whose *spelling* is drawn from the whole lexical
// grammar of the subset rather than from a fixed pool, so that a defect tied to one spelling (a keyword prefix, a long
// name, one escape family, an escape next to a digit, a line continuation, a backtick inside a quoted string) is
// within reach of every workload that renders programs.

var reservedWords = map[string]bool{}

func init() {
	for _, w := range strings.Fields(`let function return if else while for true false null
		var const new this typeof in of do try class delete void with yield await async static enum export import super switch
		case default break continue throw catch finally instanceof debugger extends implements interface package private
		protected public undefined NaN Infinity arguments eval print get set`) {
		reservedWords[w] = true
	}
}

// keywordish identifiers contain a keyword of the subset as prefix, suffix or in another letter case.
var keywordish = []string{"iffy", "lets", "let_", "letter", "return1", "returns", "$function", "functional", "nulls", "nullable", "trueValue",
	"falsey", "elsewhere", "whileLoop", "forEach", "format", "_if", "If", "LET", "Null", "True", "FALSE", "Return", "iff", "fo", "fun",
	"whil", "els", "nul", "tru", "fals", "retur", "functio", "le", "i", "f", "newt", "thisOne", "variable", "doIt", "inner", "typeofx"}

const idStart = "abcdefghijklmnopqrstuvwxyzABCDEFGHIJKLMNOPQRSTUVWXYZ_$"
const idPart = idStart + "0123456789"

// RandIdent returns an identifier of the subset (ASCII letters, digits, _ and $) that is no reserved word.
func RandIdent(r *rand.Rand) string {
	for {
		var s string
		switch x := r.IntN(10); {
		case x < 3:
			s = keywordish[r.IntN(len(keywordish))]
		case x < 4:
			s = []string{"$", "_", "$$", "__", "_$", "$_", "$0", "_1", "$a", "_a"}[r.IntN(10)]
		default:
			n := 1 + r.IntN(10)
			if x == 9 {
				n = 20 + r.IntN(100)
			}
			b := make([]byte, n)
			b[0] = idStart[r.IntN(len(idStart))]
			for i := 1; i < n; i++ {
				b[i] = idPart[r.IntN(len(idPart))]
			}
			s = string(b)
		}
		if !reservedWords[s] {
			return s
		}
	}
}

func rdigits(r *rand.Rand, n int, set string) string {
	b := make([]byte, n)
	for i := range b {
		b[i] = set[r.IntN(len(set))]
	}
	return string(b)
}

func rdec(r *rand.Rand, max int) string {
	s := strings.TrimLeft(rdigits(r, 1+r.IntN(max), "0123456789"), "0")
	if s == "" {
		return "0"
	}
	return s
}

// RandNum returns a numeric literal of one of the subset's shapes with random digits; integers stay below 2^53.
func RandNum(r *rand.Rand) string {
	switch r.IntN(8) {
	case 0:
		return rdec(r, 15)
	case 1:
		return rdec(r, 8) + "." + rdigits(r, 1+r.IntN(10), "0123456789")
	case 2:
		return rdec(r, 6) + "." + rdigits(r, 1+r.IntN(6), "0123456789") + []string{"e", "E"}[r.IntN(2)] + []string{"", "+", "-"}[r.IntN(3)] + rdec(r, 2)
	case 3:
		return rdec(r, 6) + []string{"e", "E"}[r.IntN(2)] + []string{"", "+", "-"}[r.IntN(3)] + rdec(r, 2)
	case 4:
		return []string{"0x", "0X"}[r.IntN(2)] + rdigits(r, 1+r.IntN(13), "0123456789abcdefABCDEF")
	case 5:
		return []string{"0b", "0B"}[r.IntN(2)] + rdigits(r, 1+r.IntN(53), "01")
	case 6:
		return []string{"0o", "0O"}[r.IntN(2)] + rdigits(r, 1+r.IntN(17), "01234567")
	}
	return rdec(r, 3)
}

var strPlain = []string{"a", "Z", "hello", " ", "  ", "x y", "0", "1", "7", "9", "f", "x", "u", "n", "$", "{", "}", "${x}", "//", "/*", "*/", ";", ",", "(", ")", "[",
	"]", "%", "`", "``", "<!--", "=>", "é", "ñ", "ü", "漢字", "€", "😀", "\u2028", "\u2029", "\u00a0", "\ufeff", "\t", "if", "let x = 1;", "function"}

var strSimpleEsc = []string{`\n`, `\t`, `\r`, `\b`, `\f`, `\v`, `\0`, `\\`, `\'`, `\"`, `\q`, `\ `, `\/`, `\-`, `\a`, `\$`, "\\`", `\é`, `\😀`}

func randCodePointEscape(r *rand.Rand) string {
	var cp int
	switch r.IntN(6) {
	case 0: // characters that matter to the printer
		cp = []int{'"', '\'', '\\', '`', '\n', '\r', 0, 0x7f, 0x2028, 0x2029, '0', '1', '7', '9', 'a', 'f', 'x', 'u', '{', '}', '$', 0xd800, 0xdfff, 0xfeff, 0xa0,
			// encoding boundaries
			0x80, 0x7ff, 0x800, 0xd7ff, 0xe000, 0xfffe, 0xffff, 0x10000, 0x10ffff, 0xffff, 0xffff}[r.IntN(36)]
	case 1:
		cp = r.IntN(0x80)
	case 2:
		cp = 0x80 + r.IntN(0x80)
	case 3:
		cp = r.IntN(0x10000)
	case 4:
		cp = 0x10000 + r.IntN(0x100000)
	default:
		cp = r.IntN(0x800)
	}
	switch k := r.IntN(3); {
	case k == 0 && cp < 0x100:
		return fmt.Sprintf([]string{`\x%02x`, `\x%02X`}[r.IntN(2)], cp)
	case k <= 1 && cp < 0x10000:
		return fmt.Sprintf([]string{`\u%04x`, `\u%04X`}[r.IntN(2)], cp)
	}
	return fmt.Sprintf([]string{`\u{%x}`, `\u{%X}`, `\u{%04x}`, `\u{%06X}`}[r.IntN(4)], cp)
}

// legacy octal escapes (Annex B, sloppy mode) of one, two and three digits, and the non-octal \8 \9: xjs keeps them as
// written, so whatever is printed behind them must not extend them
var strOctalEsc = []string{`\1`, `\7`, `\3`, `\00`, `\03`, `\12`, `\07`, `\37`, `\40`, `\77`, `\000`, `\101`, `\141`, `\377`, `\400`, `\8`, `\9`, `\08`, `\19`}

// RandStrBody returns the body of a quoted string literal that is valid ECMAScript (sloppy mode) inside quote q;
// q == 0 means it must be valid inside either quote. Legacy octal escapes are included (every digit sequence behind a
// backslash is a valid sloppy-mode spelling; the value follows from the text as written).
func RandStrBody(r *rand.Rand, q byte) string {
	n := r.IntN(8)
	if r.IntN(12) == 0 {
		n = 20 + r.IntN(60)
	}
	var sb strings.Builder
	for i := 0; i < n; i++ {
		var p string
		switch x := r.IntN(10); {
		case x < 4:
			p = strPlain[r.IntN(len(strPlain))]
		case x < 6:
			p = strSimpleEsc[r.IntN(len(strSimpleEsc))]
			if r.IntN(5) == 0 {
				p = strOctalEsc[r.IntN(len(strOctalEsc))]
				if r.IntN(2) == 0 { // directly followed by an escape that denotes a digit, or by a digit
					p += []string{`\x31`, `\x37`, `\u0033`, `\u0039`, `\u{30}`, `\u{0038}`, `1`, `7`, `9`}[r.IntN(9)]
				}
			}
		case x < 8:
			p = randCodePointEscape(r)
		case x < 9:
			p = []string{"\\\n", "\\\r\n", "\\\n\\\n", "\\\u2028"}[r.IntN(4)]
		default:
			switch {
			case q == '"':
				p = `'`
			case q == '\'':
				p = `"`
			default:
				p = []string{`\'`, `\"`}[r.IntN(2)]
			}
		}
		sb.WriteString(p)
	}
	return sb.String()
}

var tplPieces = []string{"a", "t", " ", "  ", "\t", "\n", "\r", "\r\n", " \r", " \n", "  \n", "\t\n", "\n\n", "\n  ", "\\`", "\\\\", "\\n", "\\t", "\\$", "\\${", "$", "{", "}", "$ {", "\"", "'", "//", "/*", ";",
	"é", "😀", "\\x41", "\\u0041", "\\u{41}", "\\\n", "x y", "let a = 1;", "(", "[", "0"}

// RandTplBody returns the body of a backtick string without substitutions (never contains an unescaped "${" or backtick).
func RandTplBody(r *rand.Rand) string {
	n := r.IntN(8)
	var sb strings.Builder
	for i := 0; i < n; i++ {
		p := tplPieces[r.IntN(len(tplPieces))]
		if p == "{" && strings.HasSuffix(sb.String(), "$") {
			continue
		}
		sb.WriteString(p)
	}
	return sb.String()
}
