package gen

// raw emits a custom-operator node (C05 workloads). Parenthesisation follows the
// generic level rule stated in the property: handled by the C05 monitor's own
// renderer; here only the token shape is produced for already-parenthesised trees.
func (e *emitter) raw(n *Node) {
	switch n.Text {
	case "infix":
		e.expr(n.Kids[0], 0)
		e.punct(n.Op, n)
		e.expr(n.Kids[1], 0)
	case "prefix":
		e.punct(n.Op, n)
		e.expr(n.Kids[0], 0)
	case "postfix":
		e.expr(n.Kids[0], 0)
		e.punct(n.Op, n)
	}
}
