// Package gen holds the program model (an own tree type, independent of
// xjs/ast), generators over it and an ECMAScript-grammar-aware renderer that
// produces source text together with a ground-truth token table.
package gen

import (
	"strconv"
	"strings"
	"verif/jsstr"
)

type Kind int

const (
	KProgram  Kind = iota
	KLet           // Name, Kids[0]=value (optional)
	KFuncDecl      // Name, Params, Kids=body statements
	KReturn        // Kids[0]=value (optional)
	KIf            // Kids[0]=cond Kids[1]=then Kids[2]=else(optional)
	KWhile         // cond, body
	KFor           // Kids[0..2]=init,cond,update (nil allowed) Kids[3]=body
	KBlock         // statements
	KExprStmt      // Kids[0]
	KIdent         // Name
	KNum           // Text (raw)
	KStr           // Text = raw body between the quotes as written in the source; Val = meaning (if known)
	KTpl           // Text = raw body between backticks
	KBool          // Name = "true"/"false"
	KNull
	KArr  // elements
	KObj  // Kids = k0,v0,k1,v1...
	KFunc // function expression: Name (optional), Params, Kids=body statements
	KUn   // Op, Kids[0]
	KPost // Op, Kids[0]
	KBin  // Op, L, R
	KAsg  // Op (= += -=), target, value
	KCall // callee, args...
	KDot  // Kids[0]=object, Name=property
	KIdx  // object, index
	KRaw  // custom operator node for C05: Op, Kids (infix: 2, prefix/postfix: 1), Text="infix"/"prefix"/"postfix"
)

type Node struct {
	K      Kind
	Op     string
	Name   string
	Text   string
	Quote  byte // for KStr: forced quote char, 0 = layout decides
	Params []string
	Kids   []*Node
	Level  int // KRaw infix: registered precedence level (xjs scale)
	Paren  int // expressions: number of redundant parenthesis pairs written around this node in every rendering (not part of S)
}

func Id(n string) *Node               { return &Node{K: KIdent, Name: n} }
func Num(t string) *Node              { return &Node{K: KNum, Text: t} }
func Str(t string) *Node              { return &Node{K: KStr, Text: t} }
func Bin(op string, l, r *Node) *Node { return &Node{K: KBin, Op: op, Kids: []*Node{l, r}} }
func Un(op string, x *Node) *Node     { return &Node{K: KUn, Op: op, Kids: []*Node{x}} }
func Post(op string, x *Node) *Node   { return &Node{K: KPost, Op: op, Kids: []*Node{x}} }
func Asg(op string, l, r *Node) *Node { return &Node{K: KAsg, Op: op, Kids: []*Node{l, r}} }
func Call(f *Node, args ...*Node) *Node {
	return &Node{K: KCall, Kids: append([]*Node{f}, args...)}
}
func Dot(o *Node, name string) *Node { return &Node{K: KDot, Name: name, Kids: []*Node{o}} }
func Idx(o, i *Node) *Node           { return &Node{K: KIdx, Kids: []*Node{o, i}} }
func ExprStmt(e *Node) *Node         { return &Node{K: KExprStmt, Kids: []*Node{e}} }
func Prog(s ...*Node) *Node          { return &Node{K: KProgram, Kids: s} }
func Let(name string, v *Node) *Node {
	n := &Node{K: KLet, Name: name}
	if v != nil {
		n.Kids = []*Node{v}
	}
	return n
}

// ES precedence levels used by the renderer (ECMAScript grammar, subset).
const (
	pComma = iota
	pAsg   // 1
	pOr
	pAnd
	pEq
	pRel
	pAdd
	pMul
	pUnary
	pPostfix
	pCall
	pPrimary
)

func BinPrec(op string) int {
	switch op {
	case "||":
		return pOr
	case "&&":
		return pAnd
	case "==", "!=":
		return pEq
	case "<", ">", "<=", ">=":
		return pRel
	case "+", "-":
		return pAdd
	case "*", "/", "%":
		return pMul
	}
	return -1
}

// XJSLevelToES maps an xjs precedence level (1..13) to the renderer's scale for custom infix operators:
// both scales are ordered the same way for levels 2..8; see render.go for how KRaw is parenthesised.
func (n *Node) prec() int {
	switch n.K {
	case KAsg:
		return pAsg
	case KBin:
		return BinPrec(n.Op)
	case KUn:
		return pUnary
	case KPost:
		return pPostfix
	case KCall, KDot, KIdx:
		return pCall
	}
	return pPrimary
}

var BinOps = []string{"||", "&&", "==", "!=", "<", ">", "<=", ">=", "+", "-", "*", "/", "%"}
var AsgOps = []string{"=", "+=", "-="}
var UnOps = []string{"!", "-", "++", "--"}
var PostOps = []string{"++", "--"}

// S renders the canonical S-expression of a generated tree (see norm for the xjs side).
func (n *Node) S() string {
	var sb strings.Builder
	n.s(&sb)
	return sb.String()
}

func q(s string) string { return strconv.Quote(s) }

// TplRaw is the "raw" value ECMAScript assigns to a template body: CR LF and lone CR are normalised to LF
// (what acorn reports as quasi.value.raw); S-expressions of backtick strings use it on every side.
func TplRaw(s string) string {
	return strings.ReplaceAll(strings.ReplaceAll(s, "\r\n", "\n"), "\r", "\n")
}

func (n *Node) s(sb *strings.Builder) {
	if n == nil {
		sb.WriteString("_")
		return
	}
	w := func(parts ...string) {
		for _, p := range parts {
			sb.WriteString(p)
		}
	}
	kids := func(ks []*Node) {
		for _, k := range ks {
			sb.WriteByte(' ')
			k.s(sb)
		}
	}
	body := func(ks []*Node) {
		w(" (block")
		kids(ks)
		w(")")
	}
	switch n.K {
	case KProgram:
		w("(program")
		kids(n.Kids)
		w(")")
	case KLet:
		w("(let ", n.Name)
		kids(n.Kids)
		w(")")
	case KFuncDecl:
		w("(func ", n.Name, " (", strings.Join(n.Params, " "), ")")
		body(n.Kids)
		w(")")
	case KReturn:
		w("(return")
		kids(n.Kids)
		w(")")
	case KIf:
		w("(if")
		kids(n.Kids)
		w(")")
	case KWhile:
		w("(while")
		kids(n.Kids)
		w(")")
	case KFor:
		w("(for")
		kids(n.Kids)
		w(")")
	case KBlock:
		w("(block")
		kids(n.Kids)
		w(")")
	case KExprStmt:
		w("(expr")
		kids(n.Kids)
		w(")")
	case KIdent:
		w("(id ", n.Name, ")")
	case KNum:
		w("(num ", jsstr.NumMeaning(n.Text), ")")
	case KStr:
		w("(str ", jsstr.Meaning(n.Text), ")")
	case KTpl:
		w("(tpl ", jsstr.TplMeaning(n.Text), ")")
	case KBool:
		w("(", n.Name, ")")
	case KNull:
		w("(null)")
	case KArr:
		w("(arr")
		kids(n.Kids)
		w(")")
	case KObj:
		w("(obj")
		for i := 0; i+1 < len(n.Kids); i += 2 {
			w(" (prop ")
			n.Kids[i].s(sb)
			w(" ")
			n.Kids[i+1].s(sb)
			w(")")
		}
		w(")")
	case KFunc:
		nm := n.Name
		if nm == "" {
			nm = "_"
		}
		w("(fn ", nm, " (", strings.Join(n.Params, " "), ")")
		body(n.Kids)
		w(")")
	case KUn:
		w("(un ", n.Op)
		kids(n.Kids)
		w(")")
	case KPost:
		w("(post ", n.Op)
		kids(n.Kids)
		w(")")
	case KBin:
		w("(bin ", n.Op)
		kids(n.Kids)
		w(")")
	case KAsg:
		w("(asg ", n.Op)
		kids(n.Kids)
		w(")")
	case KCall:
		w("(call")
		kids(n.Kids)
		w(")")
	case KDot:
		w("(dot")
		kids(n.Kids)
		w(" ", n.Name, ")")
	case KIdx:
		w("(idx")
		kids(n.Kids)
		w(")")
	case KRaw:
		w("(custom-", n.Text, " ", n.Op)
		kids(n.Kids)
		w(")")
	}
}

// Walk visits n and all descendants.
func (n *Node) Walk(f func(*Node)) {
	if n == nil {
		return
	}
	f(n)
	for _, k := range n.Kids {
		k.Walk(f)
	}
}

// Size counts nodes.
func (n *Node) Size() int {
	c := 0
	n.Walk(func(*Node) { c++ })
	return c
}
