package gen

import (
	"fmt"
	"math/rand/v2"
	"strings"
)

// SynOpts configures the syntax-only generator (G-syn): random trees over the
// subset, not necessarily executable, always valid ECMAScript when rendered.
type SynOpts struct {
	ExprDepth int
	StmtDepth int
	MaxStmts  int // per statement list
	NoStrings bool
	NoTpl     bool
	NoFuncs   bool
	NumDot    bool // allow member access directly on numeric literals (`1 .x`)
	EscStr    bool // string literals may contain backslash escapes (\n \\ \" \')
	Heavy     bool // favour nesting constructs (functions, blocks) over leaves
	ASCII     bool // keep string and backtick bodies ASCII-only
	Plain     bool // lexemes from the fixed pools only (no random identifiers, numbers, string bodies)
	MaxNodes  int  // size budget per generator (default 1500 nodes): beyond it only leaves are generated, so that generation
	// terminates for every depth setting (function bodies restart the expression depth, which is supercritical for large depths)
}

func isASCII(s string) bool {
	for i := 0; i < len(s); i++ {
		if s[i] >= 0x80 {
			return false
		}
	}
	return true
}

type Syn struct {
	nodes int
	R     *rand.Rand
	O     SynOpts
	nvar  int
	inFun int
	names []string // declared names visible (roughly) for references
}

var identPool = []string{"a", "b", "c", "d", "x", "y", "z", "foo", "bar", "baz", "_t", "$v", "n1", "obj", "arr", "fn", "k", "m"}
var propPool = []string{"p", "q", "len", "key", "val", "next", "x", "y", "_id", "$ref"}

func NewSyn(r *rand.Rand, o SynOpts) *Syn { return &Syn{R: r, O: o} }

func (g *Syn) fresh(prefix string) string {
	g.nvar++
	if !g.O.Plain && g.R.IntN(4) == 0 {
		prefix = RandIdent(g.R) // keyword-like, long, $/_ names: any identifier followed by digits is an identifier
	}
	return fmt.Sprintf("%s%d", prefix, g.nvar)
}

func (g *Syn) ident() string {
	if len(g.names) > 0 && g.R.IntN(3) == 0 {
		return g.names[g.R.IntN(len(g.names))]
	}
	if !g.O.Plain && g.R.IntN(4) == 0 {
		return RandIdent(g.R)
	}
	return identPool[g.R.IntN(len(identPool))]
}

var numPool = []string{"0", "1", "2", "7", "10", "42", "255", "1000", "123456789", "9007199254740991",
	"1.5", "0.25", "3.14159", "10.0", "1e3", "2.5e-3", "1E+2", "7e0", "0.5E1",
	"0x0", "0x1F", "0XAB", "0xdeadBEEF", "0b0", "0b101", "0B11", "0o7", "0o17", "0O755"}

func (g *Syn) prop() string {
	if !g.O.Plain && g.R.IntN(4) == 0 {
		return RandIdent(g.R)
	}
	return propPool[g.R.IntN(len(propPool))]
}

func (g *Syn) num() *Node {
	if !g.O.Plain && g.R.IntN(3) == 0 {
		return Num(RandNum(g.R))
	}
	if g.R.IntN(3) == 0 {
		return Num(fmt.Sprint(g.R.IntN(1000)))
	}
	return Num(numPool[g.R.IntN(len(numPool))])
}

var strPool = []string{"", "a", "hello", "x y", "it works", "A-Z", "100%", "semi;colon", "a+b", "{brace}", "(paren)", "tab?", "q", "//not a comment", "if", "let x = 1"}

var escStrPool = []string{`a\nb`, `back\\slash`, `q\"x`, `s\'y`, `end\\`, `\t`, `two \\ \\`}

func (g *Syn) str() *Node {
	if !g.O.Plain && g.R.IntN(2) == 0 {
		for {
			q := []byte{0, 0, '"', '\''}[g.R.IntN(4)]
			if b := RandStrBody(g.R, q); !g.O.ASCII || isASCII(b) {
				return &Node{K: KStr, Text: b, Quote: q}
			}
		}
	}
	if g.O.EscStr && g.R.IntN(2) == 0 {
		return Str(escStrPool[g.R.IntN(len(escStrPool))])
	}
	return Str(strPool[g.R.IntN(len(strPool))])
}

var tplPool = []string{"", "t", "esc\\` tick  \n  after", "trail  \n  next", " lead\n\ttab\t\nend ", "multi word", "a+b", "x;y", "(p)", "{b}", "it's", "say \"hi\"", "// no", "line1\nline2", "a\n  b\n"}

func (g *Syn) tpl() *Node {
	if !g.O.Plain && g.R.IntN(2) == 0 {
		for {
			if b := RandTplBody(g.R); !g.O.ASCII || isASCII(b) {
				return &Node{K: KTpl, Text: b}
			}
		}
	}
	return &Node{K: KTpl, Text: tplPool[g.R.IntN(len(tplPool))]}
}

func (g *Syn) atom() *Node {
	for {
		switch g.R.IntN(12) {
		case 0, 1, 2, 3, 4:
			return Id(g.ident())
		case 5, 6, 7:
			return g.num()
		case 8:
			if !g.O.NoStrings {
				return g.str()
			}
		case 9:
			if !g.O.NoTpl && !g.O.NoStrings {
				return g.tpl()
			}
		case 10:
			return &Node{K: KBool, Name: []string{"true", "false"}[g.R.IntN(2)]}
		case 11:
			return &Node{K: KNull}
		}
	}
}

// callLevel generates an expression usable as callee / member object.
func (g *Syn) callLevel(d int) *Node {
	if d <= 0 {
		if g.R.IntN(6) == 0 && g.O.NumDot {
			return g.num()
		}
		return Id(g.ident())
	}
	switch g.R.IntN(10) {
	case 0, 1, 2:
		return Id(g.ident())
	case 3, 4:
		return Dot(g.callLevel(d-1), g.prop())
	case 5:
		return Idx(g.callLevel(d-1), g.Expr(d-1))
	case 6, 7:
		return g.call(d)
	case 8:
		return g.Expr(d - 1) // anything: the renderer parenthesises as needed
	default:
		if g.O.NumDot && g.R.IntN(2) == 0 {
			return g.num()
		}
		return g.atom()
	}
}

func (g *Syn) call(d int) *Node {
	n := g.R.IntN(4)
	args := make([]*Node, n)
	for i := range args {
		args[i] = g.Expr(d - 1)
	}
	return Call(g.callLevel(d-1), args...)
}

func (g *Syn) target(d int) *Node {
	switch g.R.IntN(5) {
	case 0, 1, 2:
		return Id(g.ident())
	case 3:
		return Dot(g.callLevel(d-1), g.prop())
	default:
		return Idx(g.callLevel(d-1), g.Expr(d-1))
	}
}

func (g *Syn) funcExpr(d int) *Node {
	n := &Node{K: KFunc}
	if g.R.IntN(3) == 0 {
		n.Name = g.fresh("g")
	}
	np := g.R.IntN(3)
	for i := 0; i < np; i++ {
		n.Params = append(n.Params, g.fresh("p"))
	}
	g.inFun++
	n.Kids = g.stmts(d, 0, 3)
	g.inFun--
	return n
}

func (g *Syn) overBudget() bool {
	g.nodes++
	max := g.O.MaxNodes
	if max == 0 {
		max = 1500
	}
	return g.nodes > max
}

// Expr generates an expression of depth at most d.
func (g *Syn) Expr(d int) *Node {
	n := g.expr(d)
	if !g.O.Plain && n.K != KRaw && g.R.IntN(14) == 0 {
		n.Paren = 1 + g.R.IntN(2) // `(e)` or `((e))` in every rendering of the tree
	}
	return n
}

func (g *Syn) expr(d int) *Node {
	if g.overBudget() {
		return g.atom()
	}
	if d <= 0 {
		return g.atom()
	}
	x := g.R.IntN(100)
	switch {
	case x < 18:
		return g.atom()
	case x < 48:
		return Bin(BinOps[g.R.IntN(len(BinOps))], g.Expr(d-1), g.Expr(d-1))
	case x < 56:
		op := UnOps[g.R.IntN(len(UnOps))]
		if op == "++" || op == "--" {
			return Un(op, g.target(d-1))
		}
		return Un(op, g.Expr(d-1))
	case x < 60:
		return Post(PostOps[g.R.IntN(2)], g.target(d-1))
	case x < 67:
		return Asg(AsgOps[g.R.IntN(3)], g.target(d-1), g.Expr(d-1))
	case x < 77:
		return g.call(d)
	case x < 84:
		return Dot(g.callLevel(d-1), g.prop())
	case x < 88:
		return Idx(g.callLevel(d-1), g.Expr(d-1))
	case x < 92:
		n := &Node{K: KArr}
		for i, c := 0, g.R.IntN(4); i < c; i++ {
			n.Kids = append(n.Kids, g.Expr(d-1))
		}
		return n
	case x < 96:
		n := &Node{K: KObj}
		for i, c := 0, g.R.IntN(4); i < c; i++ {
			var k *Node
			switch g.R.IntN(4) {
			case 0:
				if !g.O.NoStrings {
					if k = Str(strPool[1+g.R.IntN(4)]); !g.O.Plain && g.R.IntN(2) == 0 {
						k = g.str()
					}
					break
				}
				fallthrough
			case 1:
				if k = Num(fmt.Sprint(g.R.IntN(100))); !g.O.Plain && g.R.IntN(3) == 0 {
					k = g.num()
				}
			default:
				k = Id(g.prop())
				if !g.O.Plain && g.R.IntN(12) == 0 {
					// property names that are spelled like keyword literals are names
					k = Id([]string{"true", "false", "null"}[g.R.IntN(3)])
				}
			}
			n.Kids = append(n.Kids, k, g.Expr(d-1))
		}
		return n
	default:
		if g.O.NoFuncs {
			return g.atom()
		}
		f := g.funcExpr(d - 1)
		if g.R.IntN(3) == 0 {
			return Call(f) // immediately invoked
		}
		return f
	}
}

func endsWithOpenIf(n *Node) bool {
	switch n.K {
	case KIf:
		if len(n.Kids) < 3 || n.Kids[2] == nil {
			return true
		}
		return endsWithOpenIf(n.Kids[2])
	case KWhile:
		return endsWithOpenIf(n.Kids[1])
	case KFor:
		return endsWithOpenIf(n.Kids[3])
	}
	return false
}

// subStmt generates a statement for a single-statement position.
func (g *Syn) subStmt(sd, ed int) *Node {
	if g.R.IntN(2) == 0 || sd <= 0 {
		if g.R.IntN(3) > 0 {
			return &Node{K: KBlock, Kids: g.stmts(sd-1, ed, 3)}
		}
	}
	for {
		s := g.Stmt(sd-1, ed)
		if s.K == KLet || s.K == KFuncDecl {
			continue
		}
		return s
	}
}

func (g *Syn) stmts(sd, ed, max int) []*Node {
	if max <= 0 {
		max = g.O.MaxStmts
	}
	n := g.R.IntN(max + 1)
	var out []*Node
	saved := len(g.names)
	for i := 0; i < n; i++ {
		out = append(out, g.Stmt(sd, ed))
	}
	g.names = g.names[:saved]
	return out
}

// Stmt generates one statement.
func (g *Syn) Stmt(sd, ed int) *Node {
	if g.overBudget() {
		return ExprStmt(g.atom())
	}
	if ed < 0 {
		ed = 0
	}
	if ed == 0 {
		ed = g.O.ExprDepth
	}
	x := g.R.IntN(100)
	if sd <= 0 {
		if x < 55 {
			x = 0 // expr
		} else if x < 85 {
			x = 40 // let
		} else {
			x = 99 // return or expr
		}
	} else if g.O.Heavy {
		x = 30 + g.R.IntN(70)
	}
	ex := func() *Node { return g.Expr(1 + g.R.IntN(ed)) }
	switch {
	case x < 35:
		return ExprStmt(ex())
	case x < 55:
		name := g.fresh("v")
		var v *Node
		if g.R.IntN(5) > 0 {
			v = ex()
		}
		g.names = append(g.names, name)
		return Let(name, v)
	case x < 67:
		n := &Node{K: KIf, Kids: []*Node{ex(), g.subStmt(sd, ed)}}
		if g.R.IntN(2) == 0 {
			if n.Kids[1].K != KBlock && endsWithOpenIf(n.Kids[1]) {
				n.Kids[1] = &Node{K: KBlock, Kids: []*Node{n.Kids[1]}}
			}
			n.Kids = append(n.Kids, g.subStmt(sd, ed))
		}
		return n
	case x < 74:
		return &Node{K: KWhile, Kids: []*Node{ex(), g.subStmt(sd, ed)}}
	case x < 82:
		n := &Node{K: KFor, Kids: make([]*Node, 4)}
		switch g.R.IntN(4) {
		case 0:
			name := g.fresh("i")
			var v *Node
			if g.R.IntN(4) > 0 {
				v = ex()
			}
			n.Kids[0] = Let(name, v)
		case 1:
			n.Kids[0] = Asg("=", Id(g.ident()), ex())
		case 2:
			n.Kids[0] = ex()
		}
		if g.R.IntN(4) > 0 {
			n.Kids[1] = ex()
		}
		if g.R.IntN(4) > 0 {
			n.Kids[2] = ex()
		}
		n.Kids[3] = g.subStmt(sd, ed)
		return n
	case x < 88:
		return &Node{K: KBlock, Kids: g.stmts(sd-1, ed, 3)}
	case x < 96:
		n := &Node{K: KFuncDecl, Name: g.fresh("f")}
		for i, c := 0, g.R.IntN(4); i < c; i++ {
			n.Params = append(n.Params, g.fresh("p"))
		}
		g.inFun++
		n.Kids = g.stmts(sd-1, ed, 4)
		g.inFun--
		g.names = append(g.names, n.Name)
		return n
	default:
		if g.inFun > 0 {
			n := &Node{K: KReturn}
			if g.R.IntN(4) > 0 {
				n.Kids = []*Node{ex()}
			}
			return n
		}
		return ExprStmt(ex())
	}
}

// Program generates a whole program.
func (g *Syn) Program() *Node {
	p := &Node{K: KProgram}
	n := 1 + g.R.IntN(g.O.MaxStmts)
	for i := 0; i < n; i++ {
		p.Kids = append(p.Kids, g.Stmt(g.O.StmtDepth, g.O.ExprDepth))
	}
	return p
}

// Describe gives a short human-readable form (used in evidence samples).
func Describe(src string) string {
	s := strings.ReplaceAll(src, "\r", "\\r")
	if len(s) > 400 {
		s = s[:400] + "…"
	}
	return s
}
