package gen

import (
	"math/rand/v2"
	"strings"
)

type TokKind int

const (
	TIdent TokKind = iota
	TKeyword
	TNum
	TStr
	TTpl
	TPunct
	TEOF
)

// Context kinds for the nesting ground truth.
const (
	CtxGlobal = 0
	CtxBlock  = 1
	CtxFunc   = 2
)

type Comment struct {
	Text     string // text after the two slashes, as written
	Off      int    // byte offset of the first slash
	Line     int
	OwnLine  bool // only whitespace precedes it on its line
	Before   int  // index (in Toks, or len(Toks) for end of input) of the next significant token
	Boundary bool // sits in a statement-list gap
}

type Tok struct {
	Text string
	Kind TokKind
	Node *Node
	// ground truth from the tree
	StmtStart  bool // first token of a statement
	ExprStarts int  // number of (sub)expressions beginning at this token
	FullExpr   bool // a full-expression position begins here (statement expression, condition, argument, element, value, group inner, index)
	InFunc     bool // inside some function body
	Ctx        int  // innermost enclosing brace construct: CtxGlobal / CtxBlock / CtxFunc
	Depth      int  // number of enclosing brace constructs
	// constraints on the gap before this token
	NoNL     bool // a line break here would change the parse (restricted productions)
	VSemi    bool // a statement terminator position precedes this token
	Boundary bool // the gap before this token is a statement-list gap (before a statement, a closing brace, end of input)
	// filled in by layout
	Virtual     bool // this token is a ';' written for a VSemi position
	Off, End    int  // byte offsets [Off, End)
	Line, Col   int  // 0-based, bytes
	EndLine     int  // line of the last byte
	EndCol      int  // column of the last byte
	NLBefore    bool // the gap before this token contains a line break
	BlankBefore int  // number of blank lines in the gap before this token
	SmartCut    bool // '(' or '[' statement start left unprotected after a line break (only with Layout.Smart)
	Fused       bool // statement separator dropped entirely (only with Layout.Fuse)
}

type EmitOpts struct {
	Parens float64 // probability of a redundant pair of parentheses around any expression
	Quote  int     // 0 double, 1 single, 2 random
}

type emitter struct {
	r    *rand.Rand
	o    EmitOpts
	toks []Tok
	pend Tok // pending flags for the next token
	ctx  []int
	nfun int
	// subStmt: the next statement is the body of if/else/while/for, not an entry of a statement list
	subStmt bool
}

func (e *emitter) tok(text string, kind TokKind, n *Node) {
	t := e.pend
	e.pend = Tok{}
	t.Text, t.Kind, t.Node = text, kind, n
	t.InFunc = e.nfun > 0
	t.Ctx = e.ctx[len(e.ctx)-1]
	t.Depth = len(e.ctx) - 1
	e.toks = append(e.toks, t)
}

func (e *emitter) punct(s string, n *Node) { e.tok(s, TPunct, n) }
func (e *emitter) kw(s string, n *Node)    { e.tok(s, TKeyword, n) }

func (e *emitter) markExpr(full bool) {
	e.pend.ExprStarts++
	if full {
		e.pend.FullExpr = true
	}
}

// leftmostHazard returns the object literal / function expression that the text of n would begin with (nil if none).
func leftmostHazard(n *Node, minPrec int) *Node {
	if n.prec() < minPrec || n.Paren > 0 {
		return nil
	}
	switch n.K {
	case KObj, KFunc:
		return n
	case KBin:
		return leftmostHazard(n.Kids[0], n.prec())
	case KAsg, KPost, KCall, KDot, KIdx:
		return leftmostHazard(n.Kids[0], pCall)
	case KRaw:
		if n.Text == "infix" || n.Text == "postfix" {
			return leftmostHazard(n.Kids[0], 0)
		}
	}
	return nil
}

// startsHazard: would the expression, rendered with minimal parentheses under
// minPrec, begin with '{' or 'function' (not allowed at the start of an
// expression statement)?
func startsHazard(n *Node, minPrec int) bool {
	if n.prec() < minPrec {
		return false // will be parenthesised
	}
	switch n.K {
	case KObj, KFunc:
		return true
	case KBin:
		return startsHazard(n.Kids[0], n.prec())
	case KAsg, KPost, KCall, KDot, KIdx:
		return startsHazard(n.Kids[0], pCall)
	case KRaw:
		if n.Text == "infix" || n.Text == "postfix" {
			return startsHazard(n.Kids[0], 0)
		}
	}
	return false
}

func (e *emitter) quoteFor(n *Node) byte {
	if n.Quote != 0 {
		return n.Quote
	}
	switch e.o.Quote {
	case 0:
		return '"'
	case 1:
		return '\''
	}
	if e.r.IntN(2) == 0 {
		return '"'
	}
	return '\''
}

func (e *emitter) expr(n *Node, minPrec int) {
	e.markExpr(false)
	need := n.prec() < minPrec
	if n.Paren > 0 {
		// explicit redundant pairs that belong to the tree: the same in every rendering of it
		n.Paren--
		e.punct("(", nil)
		e.markExpr(true)
		e.expr(n, pAsg)
		e.punct(")", nil)
		n.Paren++
		return
	}
	if need || (e.o.Parens > 0 && e.r.Float64() < e.o.Parens) {
		e.punct("(", nil)
		e.markExpr(true)
		e.expr(n, pAsg)
		e.punct(")", nil)
		return
	}
	switch n.K {
	case KIdent:
		e.tok(n.Name, TIdent, n)
	case KNum:
		e.tok(n.Text, TNum, n)
	case KStr:
		q := e.quoteFor(n)
		e.tok(string(q)+n.Text+string(q), TStr, n)
	case KTpl:
		e.tok("`"+n.Text+"`", TTpl, n)
	case KBool:
		e.kw(n.Name, n)
	case KNull:
		e.kw("null", n)
	case KArr:
		e.punct("[", n)
		for i, k := range n.Kids {
			if i > 0 {
				e.punct(",", n)
			}
			e.markExpr(true)
			e.expr(k, pAsg)
		}
		e.punct("]", n)
	case KObj:
		e.punct("{", n)
		for i := 0; i+1 < len(n.Kids); i += 2 {
			if i > 0 {
				e.punct(",", n)
			}
			// keys are not expressions in ECMAScript: never parenthesised
			k := n.Kids[i]
			e.markExpr(true)
			e.markExpr(false)
			switch k.K {
			case KIdent:
				e.tok(k.Name, TIdent, k)
			case KNum:
				e.tok(k.Text, TNum, k)
			default:
				q := e.quoteFor(k)
				e.tok(string(q)+k.Text+string(q), TStr, k)
			}
			e.punct(":", n)
			e.markExpr(true)
			e.expr(n.Kids[i+1], pAsg)
		}
		e.punct("}", n)
	case KFunc:
		e.kw("function", n)
		if n.Name != "" {
			e.tok(n.Name, TIdent, n)
		}
		e.params(n)
		e.body(n)
	case KUn:
		e.punct(n.Op, n)
		e.expr(n.Kids[0], pUnary)
	case KPost:
		e.expr(n.Kids[0], pCall)
		e.pend.NoNL = true
		e.punct(n.Op, n)
	case KBin:
		p := n.prec()
		e.expr(n.Kids[0], p)
		e.punct(n.Op, n)
		e.expr(n.Kids[1], p+1)
	case KAsg:
		e.expr(n.Kids[0], pCall)
		e.punct(n.Op, n)
		e.markExpr(true)
		e.expr(n.Kids[1], pAsg)
	case KCall:
		e.expr(n.Kids[0], pCall)
		e.punct("(", n)
		for i, a := range n.Kids[1:] {
			if i > 0 {
				e.punct(",", n)
			}
			e.markExpr(true)
			e.expr(a, pAsg)
		}
		e.punct(")", n)
	case KDot:
		e.expr(n.Kids[0], pCall)
		e.punct(".", n)
		e.markExpr(false)
		e.tok(n.Name, TIdent, n)
	case KIdx:
		e.expr(n.Kids[0], pCall)
		e.punct("[", n)
		e.markExpr(true)
		e.expr(n.Kids[1], pAsg)
		e.punct("]", n)
	case KRaw:
		e.raw(n)
	}
}

func (e *emitter) params(n *Node) {
	e.punct("(", n)
	for i, p := range n.Params {
		if i > 0 {
			e.punct(",", n)
		}
		e.tok(p, TIdent, n)
	}
	e.punct(")", n)
}

func (e *emitter) body(n *Node) {
	e.punct("{", n)
	e.ctx = append(e.ctx, CtxFunc)
	e.nfun++
	for _, s := range n.Kids {
		e.stmt(s)
	}
	e.pend.Boundary = true
	e.nfun--
	e.ctx = e.ctx[:len(e.ctx)-1]
	e.punct("}", n)
}

func (e *emitter) stmt(n *Node) {
	e.pend.StmtStart = true
	e.pend.Boundary = !e.subStmt
	e.subStmt = false
	switch n.K {
	case KLet:
		e.kw("let", n)
		e.tok(n.Name, TIdent, n)
		if len(n.Kids) > 0 {
			e.punct("=", n)
			e.markExpr(true)
			e.expr(n.Kids[0], pAsg)
		}
		e.pend.VSemi = true
	case KFuncDecl:
		e.kw("function", n)
		e.tok(n.Name, TIdent, n)
		e.params(n)
		e.body(n)
	case KReturn:
		e.kw("return", n)
		if len(n.Kids) > 0 {
			e.pend.NoNL = true
			e.markExpr(true)
			e.expr(n.Kids[0], pAsg)
		}
		e.pend.VSemi = true
	case KIf:
		e.kw("if", n)
		e.punct("(", n)
		e.markExpr(true)
		e.expr(n.Kids[0], pAsg)
		e.punct(")", n)
		e.sub(n.Kids[1])
		if len(n.Kids) > 2 && n.Kids[2] != nil {
			e.kw("else", n)
			e.sub(n.Kids[2])
		}
	case KWhile:
		e.kw("while", n)
		e.punct("(", n)
		e.markExpr(true)
		e.expr(n.Kids[0], pAsg)
		e.punct(")", n)
		e.sub(n.Kids[1])
	case KFor:
		e.kw("for", n)
		e.punct("(", n)
		if init := n.Kids[0]; init != nil {
			if init.K == KLet {
				e.kw("let", init)
				e.tok(init.Name, TIdent, init)
				if len(init.Kids) > 0 {
					e.punct("=", init)
					e.markExpr(true)
					e.expr(init.Kids[0], pAsg)
				}
			} else {
				e.markExpr(true)
				e.expr(init, pAsg)
			}
		}
		e.punct(";", n)
		if n.Kids[1] != nil {
			e.markExpr(true)
			e.expr(n.Kids[1], pAsg)
		}
		e.punct(";", n)
		if n.Kids[2] != nil {
			e.markExpr(true)
			e.expr(n.Kids[2], pAsg)
		}
		e.punct(")", n)
		e.sub(n.Kids[3])
	case KBlock:
		e.punct("{", n)
		e.ctx = append(e.ctx, CtxBlock)
		for _, s := range n.Kids {
			e.stmt(s)
		}
		e.pend.Boundary = true
		e.ctx = e.ctx[:len(e.ctx)-1]
		e.punct("}", n)
	case KExprStmt:
		x := n.Kids[0]
		e.markExpr(true)
		if h := leftmostHazard(x, pAsg); h != nil && h != x && x.Size()%2 == 0 { // a property of the tree, so that every rendering of it agrees
			// parenthesise only the object literal / function expression the statement would begin with:
			// `(function(){}) == f`, `({}).a`, `(function(){})()`
			h.Paren++
			e.expr(x, pAsg)
			h.Paren--
		} else if startsHazard(x, pAsg) {
			e.markExpr(false)
			e.punct("(", nil)
			e.markExpr(true)
			e.expr(x, pAsg)
			e.punct(")", nil)
		} else {
			e.expr(x, pAsg)
		}
		e.pend.VSemi = true
	}
}

// sub emits a statement in a single-statement position (body of if/else/while/for).
// It is a statement start but not a statement-list gap.
func (e *emitter) sub(n *Node) {
	e.subStmt = true
	e.stmt(n)
}

// Rendered is source text with its ground truth.
type Rendered struct {
	Src      string
	Toks     []Tok // significant tokens in order (written ';' for statement ends included, Virtual=true)
	EOF      Tok   // pseudo token for end of input (Off=len(Src))
	Comments []Comment
	// SmartCuts: number of statement starts '(' / '[' left unprotected (text differs from plain ECMAScript reading)
	SmartCuts int
	Fuses     int // statement separators dropped entirely (tolerant-mode layouts)
	CutBraces int // closing braces cut off at the end of input (tolerant-mode layouts)
	// SemiSrc is the same text with ';' inserted at every SmartCut (what plain ECMAScript must be given)
}

type Layout struct {
	Semi     float64 // probability that a statement end is written ';' where ASI would also be legal
	NL       float64 // probability of a line break in a non-boundary gap that permits one
	StmtNL   float64 // probability of a line break at a statement-list gap
	Space    int     // 0 minimal, 1 conventional single spaces, 2 random runs of space/tab
	Comment  float64 // probability of a '//' comment in a gap that permits a line break
	CRLF     bool
	Blank    float64 // probability of extra blank lines at a line break
	Smart    bool    // leave '(' / '[' at a statement start after a line break without ';'
	Fuse     float64 // probability of dropping the separator between two statements on one line (when the second cannot continue the first)
	CutBrace int     // number of trailing closing braces to cut off (at most those that end the input)
	// statement-level decoration (C15): comments with unique payloads and blank-line runs at statement-list gaps only
	StmtDecor    float64
	Payload      func(r *rand.Rand, serial int) string
	LeadingBlank bool // allow blank lines / comments before the first token
	LongDecor    bool // one statement gap in ten carries a long run (12..45) of comments and blank runs: headers, boxes
	NoTrailingNL bool
	SemiNL       float64 // probability that a written statement-terminating ';' stands on the next line (`a⏎;b`), possibly after a comment
}

func isIdentChar(c byte) bool {
	return c == '_' || c == '$' || (c >= '0' && c <= '9') || (c >= 'a' && c <= 'z') || (c >= 'A' && c <= 'Z') || c >= 0x80
}

// needSpace: would writing b directly after a change the token sequence?
func needSpace(a, b *Tok) bool {
	if a == nil || a.Text == "" || b.Text == "" {
		return false
	}
	x, y := a.Text[len(a.Text)-1], b.Text[0]
	if isIdentChar(x) && isIdentChar(y) {
		return true
	}
	if (x == '+' && y == '+') || (x == '-' && y == '-') {
		return true
	}
	if a.Kind == TNum && y == '.' {
		return true // "1.x" is not "1 .x"
	}
	if x == '<' && y == '!' {
		return true // "<!--" opens an HTML-like comment in script code
	}
	if x == '/' && y == '/' {
		return true
	}
	if (x == '=' || x == '!' || x == '<' || x == '>' || x == '+' || x == '-') && y == '=' {
		return true
	}
	if (x == '&' && y == '&') || (x == '|' && y == '|') {
		return true
	}
	return false
}

func contHazard(t *Tok) bool {
	if t.Kind == TTpl {
		return true
	}
	switch t.Text {
	case "(", "[", "-", "+", "/", "*", "%", ".", ",", "<", ">", "=", "==", "!=", "<=", ">=", "&&", "||", "+=", "-=":
		return true
	}
	return false
}

// Render turns a program tree into text + ground truth.
func Render(prog *Node, r *rand.Rand, eo EmitOpts, lay Layout) *Rendered {
	e := &emitter{r: r, o: eo, ctx: []int{CtxGlobal}}
	for _, s := range prog.Kids {
		e.stmt(s)
	}
	e.pend.Boundary = true
	eof := e.pend
	eof.Kind = TEOF
	return layout(e.toks, eof, r, lay)
}

// RenderTokens lays out an explicit token list (used by custom-operator workloads).
func RenderTokens(toks []Tok, eof Tok, r *rand.Rand, lay Layout) *Rendered {
	return layout(toks, eof, r, lay)
}

func layout(in []Tok, eof Tok, r *rand.Rand, lay Layout) *Rendered {
	out := &Rendered{}
	var sb strings.Builder
	line, lineStart := 0, 0
	nl := "\n"
	if lay.CRLF {
		nl = "\r\n"
	}
	write := func(s string) {
		for i := 0; i < len(s); i++ {
			if s[i] == '\n' {
				line++
				lineStart = sb.Len() + i + 1
			}
		}
		sb.WriteString(s)
	}
	chance := func(p float64) bool { return p > 0 && r.Float64() < p }
	spaces := func() string {
		switch lay.Space {
		case 0:
			return ""
		case 1:
			return " "
		}
		n := r.IntN(4)
		b := make([]byte, n)
		for i := range b {
			if r.IntN(4) == 0 {
				b[i] = '\t'
			} else {
				b[i] = ' '
			}
		}
		return string(b)
	}
	indent := func() string {
		if lay.Space == 0 {
			return ""
		}
		n := r.IntN(7)
		if lay.Space == 2 && r.IntN(3) == 0 {
			return strings.Repeat("\t", n%3)
		}
		return strings.Repeat(" ", n)
	}
	// in CR LF sources a comment line may end in more than the line ending: a stray CR, blanks in front of the CR
	cmtEnd := func() string {
		if lay.CRLF && r.IntN(10) == 0 {
			return []string{"\r", " \r", "  \r\r", "\t"}[r.IntN(4)]
		}
		return ""
	}
	serial := 0
	payload := func() string {
		serial++
		if lay.Payload != nil {
			return lay.Payload(r, serial)
		}
		words := []string{" note", "x", " TODO: fix", "", " a b c", "---", " let y = 2;", "/", " résumé des totaux", " 日本語 ✓", "é", " → 😀 x", " nul\x00byte", "\x00", " tab\there \v\f", " — “x” … • y"}
		return words[r.IntN(len(words))]
	}

	// optionally cut trailing closing braces
	cut := 0
	if lay.CutBrace > 0 {
		for cut < lay.CutBrace && len(in)-cut > 0 {
			t := in[len(in)-1-cut]
			if t.Text != "}" || t.Node == nil || (t.Node.K != KBlock && t.Node.K != KFuncDecl) {
				break
			}
			cut++
		}
		// the statement terminator / boundary flags of the cut braces move to end of input
		for i := 0; i < cut; i++ {
			t := in[len(in)-1-i]
			if t.VSemi {
				eof.VSemi = true
			}
		}
		in = in[:len(in)-cut]
		out.CutBraces = cut
	}

	var prev *Tok
	emitTok := func(t Tok) {
		t.Off = sb.Len()
		t.Line = line
		t.Col = sb.Len() - lineStart
		write(t.Text)
		t.End = sb.Len()
		t.EndLine = line
		t.EndCol = sb.Len() - 1 - lineStart
		out.Toks = append(out.Toks, t)
		prev = &out.Toks[len(out.Toks)-1]
	}

	all := append(append([]Tok{}, in...), eof)
	for i := range all {
		t := all[i]
		isEOF := t.Kind == TEOF
		forceNL := false
		if t.VSemi {
			closes := isEOF || t.Text == "}"
			hazard := !isEOF && contHazard(&t)
			if hazard && prev != nil && prev.Kind == TKeyword && prev.Text == "return" && !(lay.Smart && (t.Text == "(" || t.Text == "[")) {
				// restricted production: after a bare `return` a line break ends the statement whatever follows
				// (`return⏎-x`, `return⏎(x)`, `return⏎[x]` are `return;` plus another statement)
				hazard = false
			}
			incdec := t.Text == "++" || t.Text == "--"
			writeSemi := chance(lay.Semi)
			if !writeSemi {
				switch {
				case closes:
					// nothing needed
				case hazard && lay.Smart && (t.Text == "(" || t.Text == "["):
					forceNL = true
					t.SmartCut = true
					out.SmartCuts++
				case hazard:
					writeSemi = true
				case !incdec && t.Kind != TEOF && t.Text != "else" && prev != nil && !(prev.Kind == TKeyword && prev.Text == "return") && chance(lay.Fuse):
					t.Fused = true
					out.Fuses++
				default:
					forceNL = true
				}
			}
			if writeSemi {
				semi := Tok{Text: ";", Kind: TPunct, Virtual: true, InFunc: t.InFunc, Ctx: t.Ctx, Depth: t.Depth}
				if t.Text == "}" || isEOF {
					// ';' belongs to the region that is being closed; keep flags of prev
					if prev != nil {
						semi.InFunc, semi.Ctx, semi.Depth = prev.InFunc, prev.Ctx, prev.Depth
					}
				}
				if prev != nil && chance(lay.SemiNL) {
					// `a⏎;`: legal everywhere, a ';' never continues the previous statement
					if chance(lay.Comment) {
						write(commentGap(prev, spaces()))
						c := Comment{Text: payload(), Off: sb.Len(), Line: line, OwnLine: false, Before: len(out.Toks)}
						write("//" + c.Text + cmtEnd())
						out.Comments = append(out.Comments, c)
					}
					write(nl)
					write(indent())
					semi.NLBefore = true
				} else if lay.Space == 2 && r.IntN(6) == 0 {
					write(" ")
				}
				emitTok(semi)
			}
		}
		// gap between prev and t
		gapStart := sb.Len()
		canNL := !t.NoNL && !t.Fused
		wantNL := forceNL
		if canNL && !wantNL {
			if t.Boundary {
				wantNL = chance(lay.StmtNL)
			} else {
				wantNL = chance(lay.NL)
			}
			if prev == nil && !lay.LeadingBlank {
				wantNL = false
			}
			if isEOF && lay.NoTrailingNL {
				wantNL = false
			}
		}
		nlSeen := false
		blank := 0
		if canNL && t.Boundary && lay.StmtDecor > 0 {
			// statement-level decoration: trailing comment, then own-line comments / blank runs
			if prev != nil && chance(lay.StmtDecor/2) {
				write(commentGap(prev, spaces()))
				c := Comment{Text: payload(), Off: sb.Len(), Line: line, OwnLine: false, Before: len(out.Toks), Boundary: true}
				write("//" + c.Text + cmtEnd())
				write(nl)
				nlSeen = true
				out.Comments = append(out.Comments, c)
			} else if prev != nil && (wantNL || chance(lay.StmtDecor)) {
				write(nl)
				nlSeen = true
			}
			if nlSeen || prev == nil {
				n := 0
				if chance(lay.StmtDecor) {
					n = 1 + r.IntN(3)
					if lay.LongDecor && r.IntN(10) == 0 {
						n = 12 + r.IntN(34)
					}
				}
				for k := 0; k < n; k++ {
					if r.IntN(3) == 0 {
						b := 1 + r.IntN(2)
						for j := 0; j < b; j++ {
							write(nl)
							blank++
						}
						nlSeen = true
					} else {
						write(indent())
						c := Comment{Text: payload(), Off: sb.Len(), Line: line, OwnLine: true, Before: len(out.Toks), Boundary: true}
						write("//" + c.Text + cmtEnd())
						write(nl)
						nlSeen = true
						out.Comments = append(out.Comments, c)
					}
				}
			}
			if nlSeen {
				write(indent())
			} else {
				sp := spaces()
				if sp == "" && !isEOF && needSpace(prev, &t) {
					sp = " "
				}
				write(sp)
			}
		} else if wantNL {
			if chance(lay.Comment) && prev != nil {
				write(commentGap(prev, spaces()))
				c := Comment{Text: payload(), Off: sb.Len(), Line: line, OwnLine: false, Before: len(out.Toks), Boundary: t.Boundary}
				write("//" + c.Text + cmtEnd())
				out.Comments = append(out.Comments, c)
			}
			write(nl)
			nlSeen = true
			for chance(lay.Blank) && blank < 3 {
				write(nl)
				blank++
			}
			for chance(lay.Comment) {
				write(indent())
				c := Comment{Text: payload(), Off: sb.Len(), Line: line, OwnLine: true, Before: len(out.Toks), Boundary: t.Boundary}
				write("//" + c.Text + cmtEnd())
				write(nl)
				out.Comments = append(out.Comments, c)
			}
			write(indent())
		} else {
			sp := spaces()
			if sp == "" && !isEOF && needSpace(prev, &t) {
				sp = " "
			}
			if lay.Space == 1 && prev != nil && !isEOF {
				// conventional: no space after ( [ . ! or before ) ] , ; . ( — purely cosmetic
				switch {
				case prev.Text == "(" || prev.Text == "[" || prev.Text == "." || prev.Text == "!":
					sp = ""
				case t.Text == ")" || t.Text == "]" || t.Text == "," || t.Text == ";" || t.Text == "." || t.Text == "(" || t.Text == "[":
					sp = ""
				}
				if sp == "" && needSpace(prev, &t) {
					sp = " "
				}
			}
			if prev == nil || isEOF {
				if lay.Space != 2 {
					sp = ""
				}
			}
			write(sp)
		}
		_ = gapStart
		t.NLBefore = nlSeen
		t.BlankBefore = blank
		if isEOF {
			t.Off, t.End, t.Line, t.Col = sb.Len(), sb.Len(), line, sb.Len()-lineStart
			out.EOF = t
			break
		}
		emitTok(t)
	}
	out.Src = sb.String()
	return out
}

// WithSemis returns the source with a ';' inserted before every SmartCut token:
// the text that plain ECMAScript must be given to read the same statements.
func (rd *Rendered) WithSemis() string {
	if rd.SmartCuts == 0 {
		return rd.Src
	}
	var sb strings.Builder
	last := 0
	for _, t := range rd.Toks {
		if t.SmartCut {
			sb.WriteString(rd.Src[last:t.Off])
			sb.WriteString(";")
			last = t.Off
		}
	}
	sb.WriteString(rd.Src[last:])
	return sb.String()
}

// commentGap: a '/' token directly followed by '//' would be read as a comment that swallows the operator.
func commentGap(prev *Tok, sp string) string {
	if sp == "" && prev != nil && len(prev.Text) > 0 && prev.Text[len(prev.Text)-1] == '/' {
		return " "
	}
	return sp
}
