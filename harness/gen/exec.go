package gen

import (
	"fmt"
	"math/rand/v2"
)

// G-exec: closed, deterministic, terminating programs by construction.
//   - every loop has a fresh counter with a constant bound (<= 8 iterations, nesting <= 3); the counter is never
//     an assignment target of generated code
//   - functions call only earlier-defined functions (no recursion)
//   - nothing depends on the program text: function values are only called, stored or printed (print shows "fn"),
//     never coerced to strings; no Date/Math.random/error.stack
//   - output only through print(v)
// Static types keep most runs free of exceptions; a controlled fraction throws TypeError / ReferenceError (incl. TDZ).

type etype int

const (
	tNum etype = iota
	tStr
	tBool
	tArr // array of numbers
	tObj // record with numeric fields a, b and string field s
	tFn  // function value
)

type evar struct {
	name    string
	typ     etype
	mutable bool
	ret     etype // for functions
	nparams int
}

type Exec struct {
	R       *rand.Rand
	scopes  [][]*evar
	nvar    int
	loops   int
	inFn    int
	retType []etype
	budget  int
	Throws  float64 // probability of seeding a throwing construct per program
	Hazards bool
}

func NewExec(r *rand.Rand) *Exec { return &Exec{R: r, Throws: 0.1, Hazards: true} }

func (g *Exec) push()           { g.scopes = append(g.scopes, nil) }
func (g *Exec) pop()            { g.scopes = g.scopes[:len(g.scopes)-1] }
func (g *Exec) declare(v *evar) { g.scopes[len(g.scopes)-1] = append(g.scopes[len(g.scopes)-1], v) }
func (g *Exec) fresh(p string) string {
	g.nvar++
	if g.R.IntN(4) == 0 {
		p = RandIdent(g.R) // keyword-like, long, $/_ names; followed by the counter they stay unique identifiers
	}
	return fmt.Sprintf("%s%d", p, g.nvar)
}

func (g *Exec) numLit() *Node {
	if g.R.IntN(3) == 0 {
		return Num(RandNum(g.R))
	}
	return Num(execNums[g.R.IntN(len(execNums))])
}

func (g *Exec) vars(t etype, needMutable bool) []*evar {
	var out []*evar
	for _, sc := range g.scopes {
		for _, v := range sc {
			if v.typ == t && (!needMutable || v.mutable) {
				out = append(out, v)
			}
		}
	}
	return out
}

func (g *Exec) pickVar(t etype, needMutable bool) *evar {
	vs := g.vars(t, needMutable)
	if len(vs) == 0 {
		return nil
	}
	return vs[g.R.IntN(len(vs))]
}

var execNums = []string{"0", "1", "2", "3", "7", "10", "42", "100", "255", "1.5", "0.25", "2.5e1", "1e3", "0x1F", "0b101", "0o17", "9007199254740991", "3.14159", "1E-2"}

type strLit struct {
	body  string
	quote byte // 0 = either
}

var execStrs = []strLit{
	{"", 0}, {"a", 0}, {"hello", 0}, {"x y", 0}, {"-", 0}, {"100%", 0}, {"semi;colon", 0}, {"//no comment", 0}, {"{b}", 0}, {"(p)", 0}, {"[k]", 0},
	{`tab\there`, 0}, {`nl\nline`, 0}, {`back\\slash`, 0}, {`q\"uote`, 0}, {`s\'quote`, 0}, {`\x41\x42`, 0}, {`été`, 0}, {`\u{1F600}`, 0}, {`\x22inner\x22`, 0},
	{`\x5cpath`, 0}, {`line\x0abreak`, 0}, {`"u"`, '\''}, {`\u{5c}`, 0}, {`😀`, 0}, {"été", 0}, {"日本", 0}, {`\0nul`, 0}, {"a\\\nb", 0},
	{`he said "hi"`, '\''}, {`it's`, '"'}, {`"`, '\''}, {`'`, '"'}, {`both \' and "`, '\''}, {`both ' and \"`, '"'},
}

func (g *Exec) strLit() *Node {
	if g.R.IntN(2) == 0 {
		q := []byte{0, 0, '"', '\''}[g.R.IntN(4)]
		return &Node{K: KStr, Text: RandStrBody(g.R, q), Quote: q}
	}
	s := execStrs[g.R.IntN(len(execStrs))]
	return &Node{K: KStr, Text: s.body, Quote: s.quote}
}

func (g *Exec) tpl() *Node {
	bodies := []string{"", "t", "two words", "line1\nline2", "trail  \n  next", "esc\\` tick  \n  after", "a\\`b", "sl\\\\", "it's \"q\"", "// not", "$", "{x}", "tab\\there"}
	b := bodies[g.R.IntN(len(bodies))]
	if g.R.IntN(2) == 0 {
		b = RandTplBody(g.R)
	}
	if v := g.pickVar(tNum, false); v != nil && g.R.IntN(3) == 0 {
		b = "v=${" + v.name + "} " + b
	}
	return &Node{K: KTpl, Text: b}
}

func (g *Exec) num(d int) *Node {
	g.budget--
	if d <= 0 || g.budget < 0 {
		if v := g.pickVar(tNum, false); v != nil && g.R.IntN(2) == 0 {
			return Id(v.name)
		}
		return g.numLit()
	}
	switch x := g.R.IntN(100); {
	case x < 12:
		return g.numLit()
	case x < 28:
		if v := g.pickVar(tNum, false); v != nil {
			return Id(v.name)
		}
		return Num("5")
	case x < 55:
		return Bin([]string{"+", "-", "*", "/", "%", "-", "+"}[g.R.IntN(7)], g.num(d-1), g.num(d-1))
	case x < 62:
		return Un("-", g.num(d-1))
	case x < 70:
		if v := g.pickVar(tNum, true); v != nil {
			switch g.R.IntN(4) {
			case 0:
				return Un("++", Id(v.name))
			case 1:
				return Un("--", Id(v.name))
			case 2:
				return Post("++", Id(v.name))
			default:
				return Post("--", Id(v.name))
			}
		}
		return Un("-", g.num(d-1))
	case x < 75:
		if v := g.pickVar(tArr, false); v != nil {
			if g.R.IntN(3) == 0 {
				return Dot(Id(v.name), "length")
			}
			return Idx(Id(v.name), Num(fmt.Sprint(g.R.IntN(4))))
		}
		return Dot(g.str(d-1), "length")
	case x < 80:
		if v := g.pickVar(tObj, false); v != nil {
			if g.R.IntN(4) == 0 {
				return Idx(Id(v.name), Str([]string{"a", "b"}[g.R.IntN(2)]))
			}
			return Dot(Id(v.name), []string{"a", "b"}[g.R.IntN(2)])
		}
		return g.num(d - 1)
	case x < 88:
		if c := g.call(tNum, d); c != nil {
			return c
		}
		return g.num(d - 1)
	case x < 92:
		if v := g.pickVar(tNum, true); v != nil {
			return Asg([]string{"=", "+=", "-="}[g.R.IntN(3)], Id(v.name), g.num(d-1))
		}
		return g.num(d - 1)
	case x < 95:
		return Dot(g.str(d-1), "length")
	default:
		// numeric literal as receiver: `255 .toString` hazards live in str(); here an IIFE returning a number
		f := &Node{K: KFunc, Kids: []*Node{{K: KReturn, Kids: []*Node{g.num(d - 1)}}}}
		return Call(f)
	}
}

func (g *Exec) str(d int) *Node {
	g.budget--
	if d <= 0 || g.budget < 0 {
		if v := g.pickVar(tStr, false); v != nil && g.R.IntN(2) == 0 {
			return Id(v.name)
		}
		return g.strLit()
	}
	switch x := g.R.IntN(100); {
	case x < 20:
		return g.strLit()
	case x < 30:
		return g.tpl()
	case x < 42:
		if v := g.pickVar(tStr, false); v != nil {
			return Id(v.name)
		}
		return g.strLit()
	case x < 60:
		return Bin("+", g.str(d-1), g.str(d-1))
	case x < 70:
		if g.R.IntN(2) == 0 {
			return Bin("+", g.str(d-1), g.num(d-1))
		}
		return Bin("+", g.num(d-1), g.str(d-1))
	case x < 76:
		return Call(Dot(g.str(d-1), []string{"toUpperCase", "trim", "toLowerCase"}[g.R.IntN(3)]))
	case x < 80:
		return Call(Dot(g.str(d-1), "charAt"), g.num(d-1))
	case x < 84:
		// member access on a numeric literal
		n := []string{"255", "7", "1.5", "1e3", "0x10", "0", "0", "10", "100", "0.5", "0b11", "0o17", "1E2", "9007199254740991", "1.0", "0.0", "0e0"}[g.R.IntN(17)]
		if g.R.IntN(3) == 0 {
			n = RandNum(g.R)
		}
		if g.R.IntN(2) == 0 {
			return Call(Dot(Num(n), "toString"))
		}
		return Call(Dot(Num(n), "toFixed"), Num("1"))
	case x < 88:
		if v := g.pickVar(tArr, false); v != nil {
			return Call(Dot(Id(v.name), "join"), g.strLit())
		}
		return g.strLit()
	case x < 92:
		if v := g.pickVar(tObj, false); v != nil {
			return Dot(Id(v.name), "s")
		}
		return g.strLit()
	case x < 97:
		if c := g.call(tStr, d); c != nil {
			return c
		}
		return g.strLit()
	default:
		if v := g.pickVar(tStr, true); v != nil {
			return Asg([]string{"=", "+="}[g.R.IntN(2)], Id(v.name), g.str(d-1))
		}
		return g.strLit()
	}
}

func (g *Exec) boolean(d int) *Node {
	g.budget--
	if d <= 0 || g.budget < 0 {
		if v := g.pickVar(tBool, false); v != nil && g.R.IntN(2) == 0 {
			return Id(v.name)
		}
		return &Node{K: KBool, Name: []string{"true", "false"}[g.R.IntN(2)]}
	}
	switch x := g.R.IntN(100); {
	case x < 10:
		return &Node{K: KBool, Name: []string{"true", "false"}[g.R.IntN(2)]}
	case x < 20:
		if v := g.pickVar(tBool, false); v != nil {
			return Id(v.name)
		}
		return &Node{K: KBool, Name: "true"}
	case x < 50:
		return Bin([]string{"<", ">", "<=", ">=", "==", "!="}[g.R.IntN(6)], g.num(d-1), g.num(d-1))
	case x < 60:
		return Bin([]string{"==", "!=", "<", ">"}[g.R.IntN(4)], g.str(d-1), g.str(d-1))
	case x < 72:
		return Un("!", g.boolean(d-1))
	case x < 92:
		return Bin([]string{"&&", "||"}[g.R.IntN(2)], g.boolean(d-1), g.boolean(d-1))
	case x < 96:
		// relational chain: (a < b) < c compares a boolean with a number
		return Bin("<", Bin("<", g.num(d-1), g.num(d-1)), g.num(d-1))
	default:
		return Bin("==", &Node{K: KNull}, &Node{K: KNull})
	}
}

func (g *Exec) expr(t etype, d int) *Node {
	switch t {
	case tNum:
		return g.num(d)
	case tStr:
		return g.str(d)
	case tBool:
		return g.boolean(d)
	case tArr:
		if v := g.pickVar(tArr, false); v != nil && g.R.IntN(2) == 0 {
			return Id(v.name)
		}
		n := &Node{K: KArr}
		for i, c := 0, g.R.IntN(4); i < c; i++ {
			n.Kids = append(n.Kids, g.num(d-1))
		}
		return n
	case tObj:
		if v := g.pickVar(tObj, false); v != nil && g.R.IntN(2) == 0 {
			return Id(v.name)
		}
		keyA := Id("a")
		if g.R.IntN(4) == 0 {
			keyA = Str("a")
		}
		return &Node{K: KObj, Kids: []*Node{keyA, g.num(d - 1), Id("b"), g.num(d - 1), Id("s"), g.str(d - 1)}}
	}
	return g.num(d)
}

// call generates a call of an earlier-defined function with the wanted return type.
func (g *Exec) call(ret etype, d int) *Node {
	var cands []*evar
	for _, v := range g.vars(tFn, false) {
		if v.ret == ret {
			cands = append(cands, v)
		}
	}
	if len(cands) == 0 {
		return nil
	}
	f := cands[g.R.IntN(len(cands))]
	args := make([]*Node, f.nparams)
	for i := range args {
		args[i] = g.num(d - 1)
	}
	return Call(Id(f.name), args...)
}

func (g *Exec) printStmt(d int) *Node {
	var arg *Node
	switch g.R.IntN(10) {
	case 0, 1, 2, 3:
		arg = g.num(d)
	case 4, 5, 6:
		arg = g.str(d)
	case 7:
		arg = g.boolean(d)
	case 8:
		arg = g.expr(tArr, d)
	default:
		if g.R.IntN(2) == 0 {
			arg = g.expr(tObj, d)
		} else if v := g.pickVar(tFn, false); v != nil {
			arg = Id(v.name)
		} else {
			arg = &Node{K: KNull}
		}
	}
	return ExprStmt(Call(Id("print"), arg))
}

func (g *Exec) block(sd int, maxStmts int) []*Node {
	g.push()
	defer g.pop()
	n := 1 + g.R.IntN(maxStmts)
	var out []*Node
	for i := 0; i < n && g.budget > 0; i++ {
		out = append(out, g.stmt(sd)...)
	}
	return out
}

func (g *Exec) body(sd int) *Node {
	// brace-less bodies are single non-declaration statements
	if g.R.IntN(3) == 0 {
		for k := 0; k < 4; k++ {
			ss := g.simpleStmt(2)
			if ss != nil {
				return ss
			}
		}
	}
	return &Node{K: KBlock, Kids: g.block(sd-1, 3)}
}

// simpleStmt: a statement usable as a brace-less body (no declarations).
func (g *Exec) simpleStmt(d int) *Node {
	switch g.R.IntN(5) {
	case 0, 1:
		return g.printStmt(d)
	case 2:
		if v := g.pickVar(tNum, true); v != nil {
			return ExprStmt(Asg([]string{"=", "+=", "-="}[g.R.IntN(3)], Id(v.name), g.num(d)))
		}
	case 3:
		if v := g.pickVar(tNum, true); v != nil {
			return ExprStmt(Post("++", Id(v.name)))
		}
	case 4:
		if g.inFn > 0 && g.R.IntN(3) == 0 {
			return &Node{K: KReturn, Kids: []*Node{g.expr(g.retType[len(g.retType)-1], d)}}
		}
	}
	return g.printStmt(d)
}

func (g *Exec) function(sd int) (*evar, []string, []*Node) {
	ret := []etype{tNum, tNum, tStr, tBool}[g.R.IntN(4)]
	np := g.R.IntN(3)
	fv := &evar{name: g.fresh("f"), typ: tFn, ret: ret, nparams: np}
	g.push()
	var params []string
	for i := 0; i < np; i++ {
		p := &evar{name: g.fresh("p"), typ: tNum, mutable: true}
		params = append(params, p.name)
		g.declare(p)
	}
	g.inFn++
	g.retType = append(g.retType, ret)
	savedLoops := g.loops
	g.loops = 2 // functions may be called from loops and from each other: at most one loop level of their own
	var body []*Node
	n := 1 + g.R.IntN(3)
	for i := 0; i < n && g.budget > 0; i++ {
		body = append(body, g.stmt(sd-1)...)
	}
	if g.R.IntN(5) > 0 {
		r := &Node{K: KReturn, Kids: []*Node{g.expr(ret, 2)}}
		body = append(body, r)
	} else if g.R.IntN(2) == 0 {
		body = append(body, &Node{K: KReturn})
		if g.R.IntN(2) == 0 {
			// dead code after a bare return: a statement that would continue the `return` if the line break between
			// them did not end it (`return⏎-x`, `return⏎(x)`, `return⏎[x]`, a backtick string)
			switch g.R.IntN(4) {
			case 0:
				body = append(body, ExprStmt(Un("-", g.num(1))))
			case 1:
				body = append(body, ExprStmt(Bin("*", Bin("+", g.num(1), g.num(1)), Num("2"))))
			case 2:
				body = append(body, ExprStmt(Dot(&Node{K: KArr, Kids: []*Node{g.num(1)}}, "length")))
			default:
				body = append(body, ExprStmt(g.tpl()))
			}
		}
	}
	g.loops = savedLoops
	g.retType = g.retType[:len(g.retType)-1]
	g.inFn--
	g.pop()
	return fv, params, body
}

// stmt generates one or more statements (loops come with their counter declaration).
func (g *Exec) stmt(sd int) []*Node {
	g.budget--
	d := 1 + g.R.IntN(3)
	x := g.R.IntN(100)
	if sd <= 0 && x >= 55 {
		x = g.R.IntN(55)
	}
	switch {
	case x < 18:
		return []*Node{g.printStmt(d)}
	case x < 38:
		t := []etype{tNum, tNum, tNum, tStr, tStr, tBool, tArr, tObj}[g.R.IntN(8)]
		v := &evar{name: g.fresh("v"), typ: t, mutable: true}
		val := g.expr(t, d)
		g.declare(v)
		return []*Node{Let(v.name, val)}
	case x < 48:
		for _, t := range []etype{tNum, tStr, tBool} {
			if v := g.pickVar(t, true); v != nil && g.R.IntN(2) == 0 {
				op := "="
				if t != tBool && g.R.IntN(2) == 0 {
					op = "+="
				}
				return []*Node{ExprStmt(Asg(op, Id(v.name), g.expr(t, d)))}
			}
		}
		return []*Node{g.printStmt(d)}
	case x < 55:
		// expression statements that begin with hazardous tokens
		if !g.Hazards {
			return []*Node{g.printStmt(d)}
		}
		switch g.R.IntN(8) {
		case 0:
			return []*Node{ExprStmt(Call(&Node{K: KFunc, Kids: []*Node{g.printStmt(1)}}))} // (function(){...})()
		case 1:
			return []*Node{ExprStmt(Call(Dot(&Node{K: KArr, Kids: []*Node{g.num(1), g.num(1)}}, "join"), Str("+")))} // [a,b].join("+")
		case 2:
			return []*Node{ExprStmt(Un("-", g.num(1)))}
		case 3:
			if v := g.pickVar(tNum, true); v != nil {
				return []*Node{ExprStmt(Un([]string{"++", "--"}[g.R.IntN(2)], Id(v.name)))}
			}
			return []*Node{ExprStmt(Un("!", g.boolean(1)))}
		case 4:
			return []*Node{ExprStmt(g.tpl())}
		case 5:
			return []*Node{ExprStmt(g.strLit())}
		case 6:
			return []*Node{ExprStmt(Dot(g.expr(tObj, 1), "a"))} // ({...}).a
		default:
			return []*Node{ExprStmt(Bin("*", Bin("+", g.num(1), g.num(1)), g.num(1)))} // (a + b) * c
		}
	case x < 67:
		n := &Node{K: KIf, Kids: []*Node{g.boolean(d), g.body(sd)}}
		if g.R.IntN(2) == 0 {
			if n.Kids[1].K != KBlock && endsWithOpenIf(n.Kids[1]) {
				n.Kids[1] = &Node{K: KBlock, Kids: []*Node{n.Kids[1]}}
			}
			n.Kids = append(n.Kids, g.body(sd))
		}
		return []*Node{n}
	case x < 76:
		if g.loops >= 3 {
			return []*Node{g.printStmt(d)}
		}
		g.loops++
		defer func() { g.loops-- }()
		bound := Num(fmt.Sprint(1 + g.R.IntN(4)))
		c := &evar{name: g.fresh("i"), typ: tNum, mutable: false}
		if g.R.IntN(2) == 0 {
			// let i = 0; while (i < N) { body; i++ }
			g.declare(c)
			blk := &Node{K: KBlock, Kids: g.block(sd-1, 3)}
			blk.Kids = append(blk.Kids, ExprStmt(Post("++", Id(c.name))))
			cond := Bin("<", Id(c.name), bound)
			return []*Node{Let(c.name, Num("0")), {K: KWhile, Kids: []*Node{cond, blk}}}
		}
		upd := Post("++", Id(c.name))
		if g.R.IntN(3) == 0 {
			upd = Asg("+=", Id(c.name), Num("1"))
		}
		switch shape := g.R.IntN(8); {
		case shape == 0:
			// let i = 0; for (; i < N; i++) body        (no initialiser)
			g.declare(c)
			return []*Node{Let(c.name, Num("0")), {K: KFor, Kids: []*Node{nil, Bin("<", Id(c.name), bound), upd, g.body(sd)}}}
		case shape == 1:
			// let i; for (i = 0; i < N; i++) body      (initialiser is an expression)
			g.declare(c)
			return []*Node{Let(c.name, nil), {K: KFor, Kids: []*Node{Asg("=", Id(c.name), Num("0")), Bin("<", Id(c.name), bound), upd, g.body(sd)}}}
		case shape == 2:
			// for (let i = 0; i < N;) { body; i++ }      (no update)
			g.push()
			g.declare(c)
			blk := &Node{K: KBlock, Kids: g.block(sd-1, 3)}
			blk.Kids = append(blk.Kids, ExprStmt(upd))
			g.pop()
			if g.R.IntN(3) == 0 {
				// let i = 0; for (; i < N;) { body; i++ }    (test only)
				g.declare(c)
				return []*Node{Let(c.name, Num("0")), {K: KFor, Kids: []*Node{nil, Bin("<", Id(c.name), bound), nil, blk}}}
			}
			return []*Node{{K: KFor, Kids: []*Node{Let(c.name, Num("0")), Bin("<", Id(c.name), bound), nil, blk}}}
		case shape == 3 && g.inFn > 0:
			// let i = 0; for (;;) { if (i >= N) { return e } body; i++ }   (empty header, left by return)
			g.declare(c)
			exit := &Node{K: KIf, Kids: []*Node{Bin(">=", Id(c.name), bound), {K: KBlock, Kids: []*Node{{K: KReturn, Kids: []*Node{g.expr(g.retType[len(g.retType)-1], 1)}}}}}}
			blk := &Node{K: KBlock, Kids: append([]*Node{exit}, g.block(sd-1, 2)...)}
			blk.Kids = append(blk.Kids, ExprStmt(upd))
			return []*Node{Let(c.name, Num("0")), {K: KFor, Kids: []*Node{nil, nil, nil, blk}}}
		case shape == 4 && g.inFn > 0:
			// headers without a test, left by return: for (let i = 0;; i++) | let i = 0; for (;; i++) | for (let i = 0;;) { …; i++ }
			kind := g.R.IntN(3)
			if kind != 1 {
				g.push()
				defer g.pop()
			}
			g.declare(c)
			exit := &Node{K: KIf, Kids: []*Node{Bin(">=", Id(c.name), bound), {K: KBlock, Kids: []*Node{{K: KReturn, Kids: []*Node{g.expr(g.retType[len(g.retType)-1], 1)}}}}}}
			blk := &Node{K: KBlock, Kids: append([]*Node{exit}, g.block(sd-1, 2)...)}
			switch kind {
			case 0:
				return []*Node{{K: KFor, Kids: []*Node{Let(c.name, Num("0")), nil, upd, blk}}}
			case 1:
				return []*Node{Let(c.name, Num("0")), {K: KFor, Kids: []*Node{nil, nil, upd, blk}}}
			}
			blk.Kids = append(blk.Kids, ExprStmt(upd))
			return []*Node{{K: KFor, Kids: []*Node{Let(c.name, Num("0")), nil, nil, blk}}}
		}
		g.push()
		g.declare(c)
		f := &Node{K: KFor, Kids: []*Node{Let(c.name, Num("0")), Bin("<", Id(c.name), bound), upd, g.body(sd)}}
		g.pop()
		return []*Node{f}
	case x < 80:
		return []*Node{{K: KBlock, Kids: g.block(sd-1, 3)}}
	case x < 90:
		fv, params, body := g.function(sd)
		g.declare(fv)
		if g.R.IntN(3) == 0 {
			fe := &Node{K: KFunc, Params: params, Kids: body}
			if g.R.IntN(2) == 0 {
				fe.Name = g.fresh("g")
			}
			return []*Node{Let(fv.name, fe)}
		}
		return []*Node{{K: KFuncDecl, Name: fv.name, Params: params, Kids: body}}
	case x < 94:
		if g.inFn > 0 {
			return []*Node{{K: KReturn, Kids: []*Node{g.expr(g.retType[len(g.retType)-1], d)}}}
		}
		return []*Node{g.printStmt(d)}
	default:
		// array / object mutation
		if v := g.pickVar(tArr, false); v != nil && g.R.IntN(2) == 0 {
			return []*Node{ExprStmt(Call(Dot(Id(v.name), "push"), g.num(d)))}
		}
		if v := g.pickVar(tObj, false); v != nil {
			return []*Node{ExprStmt(Asg([]string{"=", "+=", "-="}[g.R.IntN(3)], Dot(Id(v.name), []string{"a", "b"}[g.R.IntN(2)]), g.num(d)))}
		}
		return []*Node{g.printStmt(d)}
	}
}

// Program generates one executable program.
func (g *Exec) Program() *Node {
	g.scopes = nil
	g.push()
	g.budget = 60 + g.R.IntN(200)
	p := &Node{K: KProgram}
	n := 2 + g.R.IntN(8)
	for i := 0; i < n && g.budget > 0; i++ {
		p.Kids = append(p.Kids, g.stmt(2+g.R.IntN(2))...)
	}
	// make the final state observable
	for _, t := range []etype{tNum, tStr, tBool, tArr, tObj} {
		for _, v := range g.scopes[0] {
			if v.typ == t && g.R.IntN(2) == 0 {
				p.Kids = append(p.Kids, ExprStmt(Call(Id("print"), Id(v.name))))
			}
		}
	}
	if g.R.Float64() < g.Throws {
		// a controlled throwing construct somewhere at top level
		var thrower *Node
		switch g.R.IntN(5) {
		case 0:
			thrower = ExprStmt(Call(Id("print"), Id("notDeclaredAnywhere"))) // ReferenceError
		case 1:
			thrower = ExprStmt(Dot(&Node{K: KNull}, "x")) // TypeError
		case 2:
			thrower = ExprStmt(Call(Num("1"))) // TypeError: not a function
		case 3:
			name := g.fresh("z")
			p.Kids = append(p.Kids, ExprStmt(Call(Id("print"), Id(name))), Let(name, Num("1"))) // TDZ
		default:
			thrower = ExprStmt(Call(Dot(Id("print"), "nope")))
		}
		if thrower != nil {
			at := g.R.IntN(len(p.Kids) + 1)
			p.Kids = append(p.Kids[:at], append([]*Node{thrower}, p.Kids[at:]...)...)
		}
	}
	g.pop()
	return p
}
