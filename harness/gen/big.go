package gen

import (
	"fmt"
	"math/rand/v2"
	"strings"
)

// Big programs: valid, executable, deterministic programs whose *size* is the point – long statement lists, long and
// deep operator chains, deep nesting of every bracket kind, wide literals and argument lists, very long lexemes, very
// many lines. Random programs stay below ~2000 nodes; defects that sit behind a threshold (a fixed-capacity buffer, a
// 16-bit counter, a recursion limit, a "fast path for short inputs") need inputs on the other side of it.
// Everything is observable through print(v) so that the same trees serve the behaviour check.

var BigKinds = []string{"long-list", "left-chain", "right-chain", "deep-unary", "deep-call", "member-chain", "deep-index", "wide-array", "wide-call", "wide-object",
	"many-params", "long-identifier", "long-string", "long-template", "long-number", "nested-blocks", "nested-ifs", "nested-functions", "nested-arrays", "deep-parens", "many-functions", "long-comment-free-line", "many-empty-brackets"}

func pr(e *Node) *Node { return ExprStmt(Call(Id("print"), e)) }

// Big builds one program of the given kind with size parameter n.
func Big(r *rand.Rand, kind string, n int) *Node {
	num := func(i int) *Node { return Num(fmt.Sprint(i % 97)) }
	ops := []string{"+", "-", "*", "+", "-", "%", "<", "==", "&&", "||"}
	switch kind {
	case "long-list":
		p := Prog(Let("acc", Num("0")))
		for i := 0; i < n; i++ {
			switch i % 4 {
			case 0:
				p.Kids = append(p.Kids, ExprStmt(Asg("+=", Id("acc"), num(i))))
			case 1:
				p.Kids = append(p.Kids, Let(fmt.Sprintf("v%d", i), Bin("*", Id("acc"), Num("2"))))
			case 2:
				p.Kids = append(p.Kids, &Node{K: KIf, Kids: []*Node{Bin(">", Id("acc"), num(i)), ExprStmt(Asg("-=", Id("acc"), Num("1")))}})
			default:
				p.Kids = append(p.Kids, ExprStmt(Post("++", Id("acc"))))
			}
		}
		p.Kids = append(p.Kids, pr(Id("acc")))
		return p
	case "left-chain":
		e := num(1)
		for i := 0; i < n; i++ {
			e = Bin(ops[r.IntN(len(ops))], e, num(i+2))
		}
		return Prog(pr(e))
	case "right-chain":
		e := num(1)
		for i := 0; i < n; i++ {
			e = Bin(ops[r.IntN(len(ops))], num(i+2), e)
		}
		return Prog(pr(e))
	case "deep-unary":
		e := Id("x")
		for i := 0; i < n; i++ {
			e = Un([]string{"-", "!", "-", "-"}[r.IntN(4)], e)
		}
		return Prog(Let("x", Num("3")), pr(e))
	case "deep-call":
		e := Num("0")
		for i := 0; i < n; i++ {
			e = Call(Id("f"), e)
		}
		return Prog(&Node{K: KFuncDecl, Name: "f", Params: []string{"a"}, Kids: []*Node{{K: KReturn, Kids: []*Node{Bin("+", Id("a"), Num("1"))}}}}, pr(e))
	case "member-chain":
		e := Id("o")
		for i := 0; i < n; i++ {
			e = Dot(e, "s")
		}
		return Prog(Let("o", &Node{K: KObj, Kids: []*Node{Id("k"), Num("7")}}), ExprStmt(Asg("=", Dot(Id("o"), "s"), Id("o"))), pr(Dot(e, "k")))
	case "deep-index":
		e := Id("o")
		for i := 0; i < n; i++ {
			e = Idx(e, Num("0"))
		}
		return Prog(Let("o", &Node{K: KArr, Kids: []*Node{Num("0")}}), ExprStmt(Asg("=", Idx(Id("o"), Num("0")), Id("o"))), pr(Dot(e, "length")))
	case "wide-array":
		a := &Node{K: KArr}
		for i := 0; i < n; i++ {
			a.Kids = append(a.Kids, num(i))
		}
		return Prog(Let("w", a), pr(Dot(Id("w"), "length")), pr(Idx(Id("w"), Num(fmt.Sprint(n-1)))))
	case "wide-call":
		c := Call(Id("g"))
		for i := 0; i < n; i++ {
			c.Kids = append(c.Kids, num(i))
		}
		return Prog(&Node{K: KFuncDecl, Name: "g", Params: []string{"a", "b"}, Kids: []*Node{{K: KReturn, Kids: []*Node{Bin("+", Id("a"), Id("b"))}}}}, pr(c))
	case "wide-object":
		o := &Node{K: KObj}
		for i := 0; i < n; i++ {
			o.Kids = append(o.Kids, Id(fmt.Sprintf("k%d", i)), num(i))
		}
		return Prog(Let("w", o), pr(Dot(Id("w"), fmt.Sprintf("k%d", n-1))))
	case "many-params":
		f := &Node{K: KFuncDecl, Name: "h"}
		c := Call(Id("h"))
		for i := 0; i < n; i++ {
			f.Params = append(f.Params, fmt.Sprintf("p%d", i))
			c.Kids = append(c.Kids, num(i))
		}
		f.Kids = []*Node{{K: KReturn, Kids: []*Node{Id(fmt.Sprintf("p%d", n-1))}}}
		return Prog(f, pr(c))
	case "long-identifier":
		name := "id" + strings.Repeat("xY_$9", n)
		return Prog(Let(name, Num("5")), pr(Bin("+", Id(name), Id(name))))
	case "long-string":
		var sb strings.Builder
		for sb.Len() < n*8 {
			sb.WriteString([]string{"lorem ipsum ", `\n`, `\x41`, `é`, `\u{1F600}`, `'`, `\\`, "// ", "` ", `\"`}[r.IntN(10)])
		}
		return Prog(Let("s", &Node{K: KStr, Text: sb.String(), Quote: '"'}), pr(Dot(Id("s"), "length")), pr(Call(Dot(Id("s"), "charCodeAt"), Num(fmt.Sprint(n)))))
	case "long-template":
		var sb strings.Builder
		for sb.Len() < n*8 {
			sb.WriteString([]string{"line of text", "\n", "  \n", "\\`", "\t", "é", "{x}", "$ "}[r.IntN(8)])
		}
		return Prog(Let("s", &Node{K: KTpl, Text: sb.String()}), pr(Dot(Id("s"), "length")))
	case "long-number":
		return Prog(pr(Num("0."+rdigits(r, n, "0123456789"))), pr(Num(rdigits(r, 15, "123456789")+"."+rdigits(r, n, "0123456789")+"e-"+fmt.Sprint(r.IntN(300)))), pr(Num("0x"+rdigits(r, 13, "0123456789abcdef"))))
	case "nested-blocks":
		body := []*Node{pr(Num("1"))}
		for i := 0; i < n; i++ {
			body = []*Node{{K: KBlock, Kids: body}}
		}
		return Prog(body...)
	case "nested-ifs":
		var s *Node = pr(Num("1"))
		for i := 0; i < n; i++ {
			s = &Node{K: KIf, Kids: []*Node{&Node{K: KBool, Name: "true"}, &Node{K: KBlock, Kids: []*Node{s}}, &Node{K: KBlock, Kids: []*Node{pr(num(i))}}}}
		}
		return Prog(s)
	case "nested-functions":
		body := []*Node{{K: KReturn, Kids: []*Node{Num("1")}}}
		for i := 0; i < n; i++ {
			name := fmt.Sprintf("n%d", i)
			body = []*Node{{K: KFuncDecl, Name: name, Kids: body}, {K: KReturn, Kids: []*Node{Bin("+", Call(Id(name)), Num("1"))}}}
		}
		return Prog(&Node{K: KFuncDecl, Name: "top", Kids: body}, pr(Call(Id("top"))))
	case "nested-arrays":
		e := &Node{K: KArr, Kids: []*Node{Num("1")}}
		for i := 0; i < n; i++ {
			e = &Node{K: KArr, Kids: []*Node{e}}
		}
		return Prog(Let("a", e), pr(Dot(Id("a"), "length")))
	case "deep-parens":
		e := Bin("+", Num("1"), Num("2"))
		e.Paren = n
		return Prog(pr(Bin("*", e, Num("3"))))
	case "many-functions":
		p := Prog()
		sum := Num("0")
		for i := 0; i < n; i++ {
			name := fmt.Sprintf("fn%d", i)
			p.Kids = append(p.Kids, &Node{K: KFuncDecl, Name: name, Params: []string{"a"}, Kids: []*Node{{K: KReturn, Kids: []*Node{Bin("+", Id("a"), num(i))}}}})
			if i%16 == 0 {
				sum = Bin("+", sum, Call(Id(name), num(i)))
			}
		}
		p.Kids = append(p.Kids, pr(sum))
		return p
	case "many-empty-brackets":
		// a flat program with thousands of empty calls, empty array / object literals, empty blocks and empty functions
		p := Prog(&Node{K: KFuncDecl, Name: "e", Kids: nil}, Let("c", Num("0")))
		for i := 0; i < n; i++ {
			switch i % 5 {
			case 0:
				p.Kids = append(p.Kids, ExprStmt(Call(Id("e"))))
			case 1:
				p.Kids = append(p.Kids, ExprStmt(Asg("+=", Id("c"), Dot(&Node{K: KArr}, "length"))))
			case 2:
				p.Kids = append(p.Kids, &Node{K: KBlock})
			case 3:
				p.Kids = append(p.Kids, Let(fmt.Sprintf("o%d", i), &Node{K: KObj}))
			default:
				p.Kids = append(p.Kids, ExprStmt(Call(&Node{K: KFunc})))
			}
		}
		p.Kids = append(p.Kids, pr(Id("c")))
		return p
	default: // "long-comment-free-line": many short statements, meant to be rendered on one line
		p := Prog(Let("t", Num("0")))
		for i := 0; i < n; i++ {
			p.Kids = append(p.Kids, ExprStmt(Asg("+=", Id("t"), num(i))))
		}
		p.Kids = append(p.Kids, pr(Id("t")))
		return p
	}
}

// BigSize picks the size parameter for a kind: deep kinds stay within the recursion depth that the ECMAScript
// reference parsers accept comfortably, flat kinds go further.
func BigSize(r *rand.Rand, kind string, thorough bool) int {
	// (a left-deep chain of operators of mixed precedence is rendered with a parenthesis per change of level: as deep as a
	// right-deep one for the printers, whose indented output of nested parentheses is quadratic in the depth by design)
	deep := map[string]bool{"left-chain": true, "member-chain": true, "right-chain": true, "deep-unary": true, "deep-call": true, "nested-blocks": true, "nested-ifs": true, "nested-functions": true, "nested-arrays": true, "deep-parens": true, "deep-index": true}
	switch {
	case deep[kind]:
		if thorough {
			return 50 + r.IntN(450)
		}
		return 30 + r.IntN(200)
	case kind == "many-empty-brackets" || kind == "many-functions":
		return 1000 + r.IntN(5000)
	case kind == "long-number":
		return 20 + r.IntN(400)
	case kind == "long-identifier":
		return 10 + r.IntN(2000)
	default:
		if thorough {
			return 300 + r.IntN(5000)
		}
		return 200 + r.IntN(1800)
	}
}
