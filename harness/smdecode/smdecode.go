// Package smdecode is an independent decoder of Source Map v3 "mappings"
// strings, written from the format description (not from xjs).
package smdecode

import (
	"fmt"
)

// Seg is one decoded segment with absolute values.
type Seg struct {
	GenLine, GenCol int
	Fields          int // 1, 4 or 5
	Src             int
	SrcLine, SrcCol int
	Name            int // valid when Fields == 5
}

const alphabet = "ABCDEFGHIJKLMNOPQRSTUVWXYZabcdefghijklmnopqrstuvwxyz0123456789+/"

var rev [256]int

func init() {
	for i := range rev {
		rev[i] = -1
	}
	for i := 0; i < len(alphabet); i++ {
		rev[alphabet[i]] = i
	}
}

// Decode decodes a mappings string. Errors describe non-conformance.
func Decode(m string) ([]Seg, error) {
	var out []Seg
	genLine := 0
	genCol := 0
	src, srcLine, srcCol, name := 0, 0, 0, 0
	i := 0
	n := len(m)
	for i <= n {
		// read one segment (possibly empty) up to ',' ';' or end
		var vals []int
		for i < n && m[i] != ',' && m[i] != ';' {
			// one VLQ value
			val := 0
			shift := uint(0)
			for {
				if i >= n || m[i] == ',' || m[i] == ';' {
					return nil, fmt.Errorf("truncated VLQ at offset %d", i)
				}
				d := rev[m[i]]
				if d < 0 {
					return nil, fmt.Errorf("character %q at offset %d is outside the Base64 alphabet", m[i], i)
				}
				i++
				val |= (d & 31) << shift
				shift += 5
				if d&32 == 0 {
					break
				}
				if shift > 60 {
					return nil, fmt.Errorf("VLQ too long at offset %d", i)
				}
			}
			neg := val&1 == 1
			val >>= 1
			if neg {
				val = -val
			}
			vals = append(vals, val)
		}
		if len(vals) > 0 {
			if len(vals) != 1 && len(vals) != 4 && len(vals) != 5 {
				return nil, fmt.Errorf("segment with %d fields before offset %d", len(vals), i)
			}
			genCol += vals[0]
			s := Seg{GenLine: genLine, GenCol: genCol, Fields: len(vals)}
			if len(vals) >= 4 {
				src += vals[1]
				srcLine += vals[2]
				srcCol += vals[3]
				s.Src, s.SrcLine, s.SrcCol = src, srcLine, srcCol
			}
			if len(vals) == 5 {
				name += vals[4]
				s.Name = name
			}
			out = append(out, s)
		}
		if i >= n {
			break
		}
		if m[i] == ';' {
			genLine++
			genCol = 0
		}
		i++
	}
	return out, nil
}
