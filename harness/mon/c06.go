package mon

import (
	"fmt"
	"math/rand/v2"
	"strings"

	"github.com/xjslang/xjs/ast"

	"verif/fw"
	"verif/gen"
	"verif/norm"
	"verif/reflex"
)

// ---- C06: pretty printing changes layout only, and is stable ---------------

func stripLeadingWS(code string) string {
	lines := strings.Split(code, "\n")
	for i, l := range lines {
		lines[i] = strings.TrimLeft(l, " \t")
	}
	return strings.Join(lines, "\n")
}

// dropStatementSemis removes every statement-terminating ';' token and then drops lines left with only whitespace.
func dropStatementSemis(code string) string {
	items := reflex.Scan(code)
	semis := reflex.StatementSemis(items)
	var sb strings.Builder
	last := 0
	for i, it := range items {
		if semis[i] {
			sb.WriteString(code[last:it.Off])
			last = it.End
		}
	}
	sb.WriteString(code[last:])
	lines := strings.Split(sb.String(), "\n")
	out := lines[:0]
	for _, l := range lines {
		out = append(out, strings.TrimRight(l, " \t"))
	}
	return strings.Join(out, "\n")
}

func prettyCfgs() []Cfg { return AllCodeCfgs()[1:] }

// checkPretty: all C06 clauses for one parsed program under the given option sets.
func checkPretty(t *fw.T, src string, prog *ast.Program, wantS string, cfgs []Cfg, useAcorn bool) {
	var compactS string
	outs := map[Cfg]string{}
	witBase := func() map[string]any { return map[string]any{"source": src} }
	if !t.Guard("compact", witBase, func() {
		po := parse(CfgCompact.Compile(prog).Code, Mode{})
		if po.Err == nil {
			compactS = norm.S(po.Prog)
		}
	}) {
		return
	}
	if compactS == "" {
		t.Inconclusive("compact output does not re-parse (C03's business)", src)
		return
	}
	var acornTexts []string
	var acornCfgs []Cfg
	for _, c := range cfgs {
		c := c
		var code string
		wit := func() map[string]any {
			return map[string]any{"source": src, "options": c.String(), "formatted": code}
		}
		// one Compiler value per option set: "format, then format the formatted output" is done the way a formatting
		// tool does it, with the formatter it already has (a Compiler keeps nothing from one compilation to the next)
		k := c.compiler()
		if !t.Guard("pretty print", wit, func() { code = k.Compile(prog).Code }) {
			continue
		}
		outs[c] = code
		t.Count("formatted", 1)
		var po ParseOut
		if !t.Guard("re-parse formatted output", wit, func() { po = parse(code, Mode{}) }) {
			continue
		}
		if po.Err != nil || len(po.Errors) > 0 {
			w := wit()
			msg := ""
			if len(po.Errors) > 0 {
				msg = po.Errors[0].Message
				w["errors"] = po.Errors
			}
			t.Violate("formatted-output-rejected", optKey(c)+"/"+errKey(msg), "formatted output does not parse ("+msg+"): "+clip(code, 200), w)
			continue
		}
		if got := norm.S(po.Prog); got != compactS {
			w := wit()
			w["tree_of_compact"], w["tree_of_formatted"] = compactS, got
			t.Violate("formatted-tree-differs", optKey(c)+"/"+diffKey(compactS, got), "formatted output parses to a different tree than the compact output: "+clip(code, 200), w)
			continue
		}
		var again string
		if !t.Guard("format the formatted output", wit, func() { again = k.Compile(po.Prog).Code }) {
			continue
		}
		if again != code {
			w := wit()
			w["second"] = again
			t.Violate("not-idempotent", optKey(c)+"/"+firstDiffKind(code, again), "formatting the formatted output changes it: "+firstDiff(code, again), w)
			continue
		}
		if useAcorn {
			acornTexts = append(acornTexts, code)
			acornCfgs = append(acornCfgs, c)
		}
	}
	// indentation options change only leading whitespace
	for _, ns := range []bool{false, true} {
		var ref Cfg
		have := false
		for _, c := range cfgs {
			if c.NoSemi != ns {
				continue
			}
			o, ok := outs[c]
			if !ok {
				continue
			}
			if !have {
				ref, have = c, true
				continue
			}
			if stripLeadingWS(o) != stripLeadingWS(outs[ref]) {
				t.Violate("indent-changes-more-than-leading-whitespace", fmt.Sprintf("nosemi=%v", ns), fmt.Sprintf("outputs for %s and %s differ beyond leading whitespace: %s", ref, c, firstDiff(stripLeadingWS(outs[ref]), stripLeadingWS(o))),
					map[string]any{"source": src, "a": ref.String(), "b": c.String(), "out_a": outs[ref], "out_b": o})
				break
			}
			t.Count("indent_pairs_compared", 1)
		}
	}
	// the semicolon option changes only statement-terminating semicolons
	for _, c := range cfgs {
		if c.NoSemi {
			continue
		}
		d := c
		d.NoSemi = true
		a, ok1 := outs[c]
		b, ok2 := outs[d]
		if !ok1 || !ok2 {
			continue
		}
		t.Count("semi_pairs_compared", 1)
		if x, y := dropStatementSemis(a), dropStatementSemis(b); x != y {
			t.Violate("semi-option-changes-more-than-semicolons", "semi on/off", fmt.Sprintf("outputs with and without semicolons (%s) differ beyond statement-terminating ';': %s", c, firstDiff(x, y)),
				map[string]any{"source": src, "options": c.String(), "with": a, "without": b})
			break
		}
	}
	// writer invariant
	t.Guard("indent level", witBase, func() {
		cw := &ast.CodeWriter{PrettyPrint: true, IndentString: "  ", WriteSemicolons: true}
		prog.WriteTo(cw)
		if cw.IndentLevel != 0 {
			t.Violate("indent-level-not-zero", "after Program.WriteTo", fmt.Sprintf("IndentLevel=%d after writing the program", cw.IndentLevel), witBase())
		}
	})
	// rider: the reference parser must read the formatted output as the same program
	if useAcorn && len(acornTexts) > 0 && wantS != "" {
		ac, ok := acornTrees(t, acornTexts, false)
		if ok {
			for i := range ac {
				if strings.Contains(ac[i].Err, "call stack size") {
					// the reference parser (or its tree printer) ran out of stack on a very deep text: that is a limit of the
					// oracle, not a reading of the text
					t.Inconclusive("reference parser exceeded its stack on the formatted output (oracle limit)", clip(acornTexts[i], 120))
					continue
				}
				t.Count("formatted_outputs_confirmed_by_acorn", 1)
				if ac[i].Err != "" || ac[i].S != wantS {
					t.Violate("javascript-reads-formatted-output-differently", optKey(acornCfgs[i])+"/"+diffKey(wantS, ac[i].S)+" "+acornKey(ac[i].Err),
						"ECMAScript reads the formatted output differently from the source: "+ac[i].Err+": "+clip(acornTexts[i], 200),
						map[string]any{"source": src, "options": acornCfgs[i].String(), "formatted": acornTexts[i], "expected_tree": wantS, "acorn_tree": ac[i].S, "acorn_error": ac[i].Err})
				}
			}
		}
	}
}

func optKey(c Cfg) string {
	if c.NoSemi {
		return "nosemi"
	}
	return "semi"
}

func firstDiff(a, b string) string {
	i := 0
	for i < len(a) && i < len(b) && a[i] == b[i] {
		i++
	}
	lo := i - 30
	if lo < 0 {
		lo = 0
	}
	ha, hb := i+30, i+30
	if ha > len(a) {
		ha = len(a)
	}
	if hb > len(b) {
		hb = len(b)
	}
	return fmt.Sprintf("at byte %d: %q vs %q", i, a[lo:ha], b[lo:hb])
}

func firstDiffKind(a, b string) string {
	i := 0
	for i < len(a) && i < len(b) && a[i] == b[i] {
		i++
	}
	cls := func(s string) string {
		if i >= len(s) {
			return "end"
		}
		switch c := s[i]; {
		case c == '\n':
			return "newline"
		case c == ' ' || c == '\t':
			return "space"
		case c == '/':
			return "slash"
		case c == ';':
			return "semicolon"
		}
		return "text"
	}
	return cls(a) + "->" + cls(b)
}

func runC06(t *fw.T) {
	r := t.Rand()
	o := gen.SynOpts{ExprDepth: 2 + r.IntN(4), StmtDepth: 1 + r.IntN(3), MaxStmts: 1 + r.IntN(5), NumDot: r.IntN(4) == 0}
	checkC06Prog(t, r, gen.NewSyn(r, o).Program())
}

func checkC06Prog(t *fw.T, r *rand.Rand, prog *gen.Node) {
	l := stdLayouts[r.IntN(len(stdLayouts))]
	if r.IntN(3) == 0 {
		l = randomLayout(r)
	}
	rd := gen.Render(prog, r, l.E, l.L)
	var po ParseOut
	if !t.Guard("parse", func() map[string]any { return map[string]any{"source": rd.Src} }, func() { po = parse(rd.Src, Mode{}) }) {
		return
	}
	if po.Err != nil {
		t.Inconclusive("source not accepted (C02's business)", rd.Src)
		return
	}
	all := prettyCfgs()
	cfgs := all
	if !t.Thorough() || limitCfgs {
		// 6 option sets: defaults, tab/nosemi, and the semi/nosemi pair of two seed-chosen indents
		a, b := all[r.IntN(10)], all[r.IntN(10)]
		a.NoSemi, b.NoSemi = false, false
		a2, b2 := a, b
		a2.NoSemi, b2.NoSemi = true, true
		cfgs = []Cfg{CfgPretty, {Pretty: true, Spaces: 2, NoSemi: true}, a, a2, b, b2, CfgPrettyTabN, {Pretty: true, Tabs: true}}
		seen := map[Cfg]bool{}
		u := cfgs[:0]
		for _, c := range cfgs {
			if !seen[c] {
				seen[c] = true
				u = append(u, c)
			}
		}
		cfgs = u
	}
	checkPretty(t, rd.Src, po.Prog, prog.S(), cfgs, true)
	t.Distinct(rd.Src)
	for _, c := range cfgs {
		t.Feature("option-sets", c.String())
	}
	if t.WantSample() && len(rd.Src) < 160 {
		t.Sample(map[string]any{"stratum": "programs", "source": rd.Src, "formatted(tab,nosemi)": CfgPrettyTabN.Compile(po.Prog).Code})
	}
}

// statements beginning with hazardous tokens, every kind as brace-less body, with comments and blank lines
func runC06Matrix(t *fw.T) {
	n := len(stmtForms)
	f1, f2 := stmtForms[t.Index/n], stmtForms[t.Index%n]
	r := t.Rand()
	var progs []*gen.Node
	if f1.fn || f2.fn {
		progs = append(progs, gen.Prog(&gen.Node{K: gen.KFuncDecl, Name: "outer", Kids: []*gen.Node{f1.mk(1), f2.mk(2), f1.mk(3)}}))
	} else {
		progs = append(progs, gen.Prog(f1.mk(1), f2.mk(2), f1.mk(3)))
		if !f2.decl {
			th := f1.mk(4)
			if f1.decl || (th.K != gen.KBlock && endsOpenIf(th)) {
				th = &gen.Node{K: gen.KBlock, Kids: []*gen.Node{th}}
			}
			progs = append(progs, gen.Prog(&gen.Node{K: gen.KIf, Kids: []*gen.Node{gen.Id("c"), th, f2.mk(5)}}, f2.mk(6)),
				gen.Prog(&gen.Node{K: gen.KWhile, Kids: []*gen.Node{gen.Id("c"), f2.mk(7)}}, f1.mk(8)))
		}
	}
	lay := gen.Layout{Semi: 0.5, Space: 1, StmtNL: 0.8, Comment: 0.3, Blank: 0.3, LeadingBlank: true}
	for _, p := range progs {
		rd := gen.Render(p, r, gen.EmitOpts{Quote: 2}, lay)
		po := parse(rd.Src, Mode{})
		if po.Err != nil {
			t.Inconclusive("source not accepted (C02's business)", rd.Src)
			continue
		}
		checkPretty(t, rd.Src, po.Prog, p.S(), []Cfg{CfgPretty, {Pretty: true, Spaces: 2, NoSemi: true}, CfgPrettyTabN, {Pretty: true, Tabs: true}}, true)
		t.Distinct(rd.Src)
	}
	t.Feature("statement-pairs", f1.name+" ; "+f2.name)
}

func init() {
	nf := len(stmtForms)
	fw.Register(&fw.Property{
		ID: "C06", Level: "exploration",
		Rule: "each accepted program (G-syn trees rendered in all layouts incl. comments, blank lines, multi-line literals) is formatted under pretty option sets (indent in {tab,0..8 spaces} x semicolons on/off); checked per option set: output re-parses to the tree of the compact output, formatting it again reproduces it byte for byte, acorn reads it as the generated tree; across option sets: same semicolon setting => equal after stripping leading whitespace of every line; semicolons on/off => equal after removing every statement-terminating ';' (reference tokenizer, for-headers excluded). stmt-matrix enumerates all ordered pairs of 29 statement forms (hazardous starts, brace-less bodies). distinct = distinct sources.",
		Assumptions: []string{
			"quick tier uses 8 of the 20 option sets per program (defaults, tab, and semi/nosemi pairs of two seed-chosen indents); thorough uses all 20",
			"WithSpaces(0) gives two-space indentation (empty indent string means default): only leading whitespace is affected, which is all the property constrains",
		},
		Teardown: closeEngine,
		Strata: []*fw.Stratum{
			{Name: "programs", Quick: 30000, Thorough: 150000, Run: runC06},
			{Name: "stmt-matrix", Quick: nf * nf, Thorough: nf * nf, Exhaustive: true, Run: runC06Matrix},
		},
	})
}
