package mon

import (
	"math/rand/v2"
	"strings"

	"verif/gen"
)

var mutTokens = []string{"(", ")", "{", "}", "[", "]", ";", ",", ".", ":", "=", "==", "+", "-", "++", "--", "!", "<", "&&", "||", "+=",
	"let", "function", "if", "else", "while", "for", "return", "true", "null", "x", "1", "1.5", "\"s\"", "`t`", "\"", "'", "`", "//", "\n", "@", "&", "0x", "1e"}

// mutate applies 1..3 token-level mutations to a rendered program.
func mutate(r *rand.Rand, rd *gen.Rendered) string {
	type piece struct{ gap, text string }
	var ps []piece
	last := 0
	for _, t := range rd.Toks {
		ps = append(ps, piece{rd.Src[last:t.Off], rd.Src[t.Off:t.End]})
		last = t.End
	}
	tail := rd.Src[last:]
	if len(ps) == 0 {
		return rd.Src
	}
	n := 1 + r.IntN(3)
	for k := 0; k < n && len(ps) > 0; k++ {
		i := r.IntN(len(ps))
		switch r.IntN(6) {
		case 0: // delete
			ps = append(ps[:i], ps[i+1:]...)
		case 1: // duplicate
			ps = append(ps[:i+1], append([]piece{{" ", ps[i].text}}, ps[i+1:]...)...)
		case 2: // swap
			j := r.IntN(len(ps))
			ps[i].text, ps[j].text = ps[j].text, ps[i].text
		case 3: // replace
			ps[i].text = mutTokens[r.IntN(len(mutTokens))]
		case 4: // insert
			ps = append(ps[:i], append([]piece{{" ", mutTokens[r.IntN(len(mutTokens))]}}, ps[i:]...)...)
		case 5: // truncate
			ps = ps[:i]
			tail = ""
		}
	}
	var sb strings.Builder
	for _, p := range ps {
		sb.WriteString(p.gap)
		sb.WriteString(p.text)
	}
	sb.WriteString(tail)
	s := sb.String()
	if r.IntN(8) == 0 && len(s) > 0 {
		s = s[:r.IntN(len(s))] // truncate at a random byte
	}
	return s
}

func randProgram(r *rand.Rand) (*gen.Node, *gen.Rendered) {
	g := gen.NewSyn(r, gen.SynOpts{ExprDepth: 2 + r.IntN(3), StmtDepth: 1 + r.IntN(3), MaxStmts: 1 + r.IntN(4), NumDot: r.IntN(4) == 0})
	prog := g.Program()
	l := stdLayouts[r.IntN(len(stdLayouts))]
	if r.IntN(3) == 0 {
		l = randomLayout(r)
	}
	return prog, gen.Render(prog, r, l.E, l.L)
}
