package mon

import (
	"math/rand/v2"
	"strings"

	"github.com/xjslang/xjs/lexer"
	"github.com/xjslang/xjs/token"

	"verif/gen"
)

// A lexer plugin that skips `/* ... */` comments: a token interceptor that, while the lexer stands on "/*", consumes
// the comment and the blanks / line breaks behind it through the public Lexer.ReadChar, and then hands over to next().
// Characters consumed by a plugin are characters like any other: positions of all later tokens stay exact.

func useBlockCommentPlugin(lb *lexer.Builder) {
	lb.UseTokenInterceptor(func(l *lexer.Lexer, next func() token.Token) token.Token {
		for l.CurrentChar == '/' && l.PeekChar() == '*' {
			l.ReadChar()
			l.ReadChar()
			for !(l.CurrentChar == '*' && l.PeekChar() == '/') && l.CurrentChar != 0 {
				l.ReadChar()
			}
			l.ReadChar()
			l.ReadChar()
			for l.CurrentChar == ' ' || l.CurrentChar == '\t' || l.CurrentChar == '\n' || l.CurrentChar == '\r' {
				l.ReadChar()
			}
		}
		return next()
	})
}

// withBlockCommentLines inserts whole lines holding a (possibly multi-line) block comment in front of some lines of
// the rendered source - only at line starts that no token spans - and returns the new ground truth: the same tokens,
// moved down by the inserted lines (columns unchanged). nil if nothing could be inserted.
func withBlockCommentLines(rd *gen.Rendered, r *rand.Rand) *gen.Rendered {
	if strings.Contains(rd.Src, "\r") {
		return nil
	}
	lines := strings.SplitAfter(rd.Src, "\n")
	spanned := map[int]bool{} // line numbers L whose start lies inside a token
	for _, tk := range rd.Toks {
		for l := tk.Line + 1; l <= tk.EndLine; l++ {
			spanned[l] = true
		}
	}
	firstTokLine := map[int]bool{}
	for _, tk := range rd.Toks {
		firstTokLine[tk.Line] = true
	}
	shiftAt := make([]int, len(lines)+1) // lines inserted in front of line i
	total := 0
	var sb strings.Builder
	for i, ln := range lines {
		// only in front of lines on which a token starts (the plugin runs when a token is requested) and that are not
		// preceded by a `//` comment line of the same gap (keeps comment ground truth simple)
		if !spanned[i] && firstTokLine[i] && r.IntN(3) == 0 {
			c := []string{"/* note */\n", "/*\n * two\n * lines\n */\n", "/**/\n", "/* a */ /* b\n */\n", "  /* indented\n\n  */  \n"}[r.IntN(5)]
			sb.WriteString(c)
			total += strings.Count(c, "\n")
		}
		shiftAt[i] = total
		sb.WriteString(ln)
	}
	if total == 0 {
		return nil
	}
	out := *rd
	out.Src = sb.String()
	out.Toks = append([]gen.Tok{}, rd.Toks...)
	for i := range out.Toks {
		tk := &out.Toks[i]
		sh := shiftAt[tk.Line]
		// byte offsets are not maintained for the shifted table: consumers use Line / Col / Text only
		tk.EndLine += sh
		tk.Line += sh
	}
	out.EOF.Line += shiftAt[min(rd.EOF.Line, len(shiftAt)-1)]
	return &out
}
