package mon

import (
	"fmt"
	"github.com/xjslang/xjs/parser"

	"github.com/xjslang/xjs/ast"
	"github.com/xjslang/xjs/lexer"
	"github.com/xjslang/xjs/token"

	"verif/fw"
	"verif/gen"
)

// ---- C12: strict mode never silently accepts malformed programs -----------

type corruption struct {
	ctx    string // token context of the corruption point: prev|removed|next (classes)
	kind   string // delete | fuse | truncate
	text   string
	detail string
	// lastIntact: index in rd.Toks of the last token wholly before the corruption point (-1: none)
	lastIntact int
}

// corruptions enumerates every single-token deletion, every statement-separator removal and every
// truncation point inside a string, backtick string, bracket pair or block.
var fuseGlues = []string{"\t", "\f", "\v", "\u00a0", "\ufeff", " \f ", "\v\t", "\f"}

func corruptions(rd *gen.Rendered) []corruption {
	var out []corruption
	src := rd.Src
	toks := rd.Toks
	// deletions
	for i, t := range toks {
		out = append(out, corruption{tokCtx(toks, i-1) + " [" + tokClass(&toks[i]) + "] " + tokCtx(toks, i+1), "delete", src[:t.Off] + src[t.End:], fmt.Sprintf("token #%d %q", i, t.Text), i - 1})
	}
	// separator removals: the gap between the last token of a statement and the first token of the next
	// statement of the same list ( `;` and/or line break) replaced by one space
	for i := 1; i < len(toks); i++ {
		t := toks[i]
		if !(t.StmtStart && t.Boundary) {
			continue
		}
		prev := i - 1
		li := prev
		if toks[prev].Virtual { // a written ';'
			if prev == 0 {
				continue
			}
			li = prev - 1
			out = append(out, corruption{tokCtx(toks, li) + " [;] " + tokCtx(toks, i), "fuse", src[:toks[li].End] + " " + src[t.Off:], fmt.Sprintf("separator before token #%d %q", i, t.Text), li})
		} else if t.VSemi || t.NLBefore {
			out = append(out, corruption{tokCtx(toks, li) + " [newline] " + tokCtx(toks, i), "fuse", src[:toks[li].End] + " " + src[t.Off:], fmt.Sprintf("separator before token #%d %q", i, t.Text), li})
		} else {
			continue
		}
		// ... and by another blank that is no line break for ECMAScript: tab, form feed, vertical tab, no-break space,
		// U+FEFF, several of them
		glue := fuseGlues[i%len(fuseGlues)]
		out = append(out, corruption{tokCtx(toks, li) + " [separator -> other blank] " + tokCtx(toks, i), "fuse", src[:toks[li].End] + glue + src[t.Off:], fmt.Sprintf("separator before token #%d %q replaced by %q", i, t.Text, glue), li})
	}
	// truncations
	depth := 0
	for i, t := range toks {
		// inside a string / backtick string: after each character of content
		if t.Kind == gen.TStr || t.Kind == gen.TTpl {
			for o := t.Off + 1; o < t.End; o++ {
				out = append(out, corruption{"inside " + tokClass(&toks[i]), "truncate", src[:o], fmt.Sprintf("inside %s token #%d at offset %d", map[gen.TokKind]string{gen.TStr: "string", gen.TTpl: "backtick string"}[t.Kind], i, o), i - 1})
				if o%2 == 0 {
					// the cut text keeps a final line break (what an editor or a transfer leaves at the end of a file)
					out = append(out, corruption{"inside " + tokClass(&toks[i]) + " + final line break", "truncate", src[:o] + []string{"\n", "\r\n"}[o/2%2], fmt.Sprintf("inside %s token #%d at offset %d, final line break kept", map[gen.TokKind]string{gen.TStr: "string", gen.TTpl: "backtick string"}[t.Kind], i, o), i - 1})
				}
			}
		}
		switch t.Text {
		case "(", "[", "{":
			if t.Kind == gen.TPunct {
				depth++
			}
		}
		// at each token boundary inside an open bracket / paren / brace pair (after token i)
		closes := t.Kind == gen.TPunct && (t.Text == ")" || t.Text == "]" || t.Text == "}")
		if closes {
			depth--
		}
		if depth > 0 && i+1 < len(toks) {
			out = append(out, corruption{"after " + tokClass(&toks[i]), "truncate", src[:t.End], fmt.Sprintf("after token #%d %q, inside %d open pair(s)", i, t.Text, depth), i})
		}
		// the quantifier says "every truncation point": also at token boundaries outside any bracket (`let x =`, `a +`,
		// `if (c)`), and inside numeric literals and multi-character operators (`0x`, `1e`, `1.`, `+` of `+=`)
		if depth == 0 && i+1 < len(toks) && !t.Virtual {
			out = append(out, corruption{"after " + tokClass(&toks[i]), "truncate", src[:t.End], fmt.Sprintf("after token #%d %q, at top level", i, t.Text), i})
		}
		if (t.Kind == gen.TNum || t.Kind == gen.TPunct) && t.End-t.Off > 1 {
			for o := t.Off + 1; o < t.End; o++ {
				out = append(out, corruption{"inside " + tokClass(&toks[i]), "truncate", src[:o], fmt.Sprintf("inside token #%d %q at offset %d", i, t.Text, o), i - 1})
			}
		}
	}
	return out
}

func runC12(t *fw.T, prog *gen.Node, lay NamedLayout) {
	r := t.Rand()
	rd := gen.Render(prog, r, lay.E, lay.L)
	// premise: the uncorrupted program is accepted by xjs and by the reference parser
	cs := corruptions(rd)
	texts := make([]string, 0, len(cs)+1)
	texts = append(texts, rd.Src)
	for _, c := range cs {
		texts = append(texts, c.text)
	}
	ref, ok := acornTrees(t, texts, true)
	if !ok {
		return
	}
	if ref[0].Err != "" || ref[0].V8 != "ok" {
		t.Count("oracle_selfcheck_failures", 1)
		t.Inconclusive("oracle self-check: reference parser rejects the uncorrupted program", gen.Describe(rd.Src)+" => "+ref[0].Err+" / "+ref[0].V8)
		return
	}
	if po := parse(rd.Src, Mode{}); po.Err != nil {
		t.Inconclusive("uncorrupted program not accepted by xjs (C02's business)", gen.Describe(rd.Src))
		return
	}
	for i, c := range cs {
		res := ref[i+1]
		t.Count("corruptions", 1)
		t.Feature("corruption-kinds", c.kind)
		if res.Err == "" || res.V8 == "ok" {
			// still valid JavaScript for at least one reference: outside the premise
			t.Count("still_valid_javascript_not_judged", 1)
			continue
		}
		t.Count("judged", 1)
		wit := func() map[string]any {
			return map[string]any{"original": rd.Src, "corrupted": c.text, "corruption": c.kind + ": " + c.detail, "acorn": res.Err, "v8": res.V8}
		}
		var po ParseOut
		if !t.Guard("strict parse of corrupted text", wit, func() {
			if i%4 == 3 {
				// strict mode of a builder that has served tolerant parsers before (options are copied into each parser)
				b := newBuilder(Mode{Tolerant: true, Smart: true})
				b.Build("a b {").ParseProgram()
				b.WithTolerantMode(false).WithSmartSemicolon(false)
				p := b.Build(c.text)
				prog, err := p.ParseProgram()
				po = ParseOut{Prog: prog, Err: err, Errors: p.Errors(), P: p}
				return
			}
			if i%8 == 4 {
				// strict parser with observing plugins installed (pass-through / continue-after-next interceptors): what is
				// not JavaScript is reported whoever watches the parse
				po = parseObserved(c.text, i)
				return
			}
			if i%16 == 8 {
				// the first statement taken by hand through the public API (a tool that looks at the head of a file first), the
				// rest by ParseProgram on the same parser: what either step reported is reported
				po = parseHeadByHand(c.text)
				return
			}
			if i%8 == 0 {
				// the statement loop driven by hand through the public API; errors read from Errors()
				po = parseByHand(c.text, Mode{})
				return
			}
			if i%4 == 2 && !hasLineLeadingBracket(c.text) {
				// strict mode with smart semicolons on: the text has no '(' / '[' first on a line, so smart mode reads it
				// exactly like the default mode (C13) and a text that is not JavaScript must be reported all the same
				po = parse(c.text, Mode{Smart: true})
				return
			}
			if i%4 == 1 {
				// a strict parser builder whose lexer builder is shared with a tolerant parser builder (one lexer
				// configuration serving several parser configurations): the neighbour's modes are not this builder's
				lb := lexer.NewBuilder()
				nb := parser.NewBuilder(lb).WithTolerantMode(true).WithSmartSemicolon(true)
				b := parser.NewBuilder(lb)
				nb.Build("a b {").ParseProgram()
				p := b.Build(c.text)
				prog, err := p.ParseProgram()
				po = ParseOut{Prog: prog, Err: err, Errors: p.Errors(), P: p}
				return
			}
			po = parse(c.text, Mode{})
		}) {
			continue
		}
		if po.Err == nil && len(po.Errors) == 0 {
			causes := leniencies(po.Prog)
			if len(causes) == 0 && templateAfterLineBreak(c.text) {
				causes = []string{"template literal after a line break"}
			}
			if len(causes) > 0 {
				// attributed to a documented leniency of the parser (known_findings.json), keyed by root cause
				t.Count("accepted_due_to_known_leniency", 1)
				t.Violate("silently-accepted", "leniency: "+causes[0], fmt.Sprintf("strict mode accepts a text that is not JavaScript (%s; acorn: %s): %s", c.detail, res.Err, gen.Describe(c.text)), wit())
				continue
			}
			t.Violate("silently-accepted", c.kind+" "+c.ctx+" / "+acornKey(res.Err), fmt.Sprintf("strict mode accepts a text that is not JavaScript (%s; acorn: %s): %s", c.detail, res.Err, gen.Describe(c.text)), wit())
			continue
		}
		if len(po.Errors) == 0 {
			continue // C11's clause
		}
		if c.lastIntact >= 0 {
			li := rd.Toks[c.lastIntact]
			first := po.Errors[0].Range.Start
			if first.Line < li.Line || (first.Line == li.Line && first.Column < li.Col) {
				w := wit()
				w["first_error"] = po.Errors[0]
				w["last_intact_token"] = fmt.Sprintf("%q at %d:%d", li.Text, li.Line, li.Col)
				t.Violate("error-too-early", c.kind+"/"+errKey(po.Errors[0].Message), fmt.Sprintf("first error %q at %d:%d lies before the last intact token %q at %d:%d (%s): %s",
					po.Errors[0].Message, first.Line, first.Column, li.Text, li.Line, li.Col, c.detail, gen.Describe(c.text)), w)
			}
		}
	}
}

var _ = token.EOF

// acornKey abstracts an acorn message ("Unterminated string constant (1:8)") into a class key.
func acornKey(msg string) string {
	for i := 0; i < len(msg); i++ {
		if msg[i] == '(' && i > 0 {
			return msg[:i-1]
		}
	}
	return msg
}

var c12Layouts = []NamedLayout{
	{"conventional", gen.EmitOpts{Quote: 2}, gen.Layout{Semi: 1, Space: 1, StmtNL: 0.7}},
	{"asi", gen.EmitOpts{Quote: 2}, gen.Layout{Semi: 0, Space: 1, StmtNL: 1}},
	{"mixed", gen.EmitOpts{Quote: 2, Parens: 0.1}, gen.Layout{Semi: 0.5, Space: 1, StmtNL: 0.8, NL: 0.1}},
}

// nestingContexts put a pair of statements where statement lists can occur below the top level: the body of a function
// expression in every expression position that takes one (a for-header's declaration / expression, a condition, a call
// argument, an object value, an array element, an operand, a return value, an immediately invoked function), and block
// bodies below control statements. What the parser requires of a statement does not depend on where its list stands.
var nestingContexts = []struct {
	name  string
	block bool // plain blocks: the pair must be valid outside a function
	mk    func(body []*gen.Node) *gen.Node
}{
	{"for-let-init", false, func(b []*gen.Node) *gen.Node {
		return gen.Prog(&gen.Node{K: gen.KFor, Kids: []*gen.Node{gen.Let("h", fnx(b)), gen.Id("c"), gen.Post("++", gen.Id("c")), {K: gen.KBlock}}})
	}},
	{"for-expr-init", false, func(b []*gen.Node) *gen.Node {
		return gen.Prog(&gen.Node{K: gen.KFor, Kids: []*gen.Node{gen.Asg("=", gen.Id("h"), fnx(b)), nil, nil, gen.ExprStmt(gen.Id("a"))}})
	}},
	{"for-test", false, func(b []*gen.Node) *gen.Node {
		return gen.Prog(&gen.Node{K: gen.KFor, Kids: []*gen.Node{nil, gen.Call(fnx(b)), nil, {K: gen.KBlock}}})
	}},
	{"for-update", false, func(b []*gen.Node) *gen.Node {
		return gen.Prog(&gen.Node{K: gen.KFor, Kids: []*gen.Node{nil, gen.Id("c"), gen.Asg("=", gen.Id("h"), fnx(b)), {K: gen.KBlock}}})
	}},
	{"let-init", false, func(b []*gen.Node) *gen.Node { return gen.Prog(gen.Let("h", fnx(b)), gen.ExprStmt(gen.Id("a"))) }},
	{"call-argument", false, func(b []*gen.Node) *gen.Node {
		return gen.Prog(gen.ExprStmt(gen.Call(gen.Id("f"), gen.Num("1"), fnx(b), gen.Id("a"))))
	}},
	{"object-value", false, func(b []*gen.Node) *gen.Node {
		return gen.Prog(gen.ExprStmt(gen.Asg("=", gen.Id("o"), &gen.Node{K: gen.KObj, Kids: []*gen.Node{gen.Id("k"), fnx(b), gen.Id("m"), gen.Num("2")}})))
	}},
	{"array-element", false, func(b []*gen.Node) *gen.Node {
		return gen.Prog(gen.ExprStmt(gen.Asg("=", gen.Id("o"), &gen.Node{K: gen.KArr, Kids: []*gen.Node{fnx(b), gen.Num("2")}})))
	}},
	{"if-condition", false, func(b []*gen.Node) *gen.Node {
		return gen.Prog(&gen.Node{K: gen.KIf, Kids: []*gen.Node{gen.Call(fnx(b)), gen.ExprStmt(gen.Id("a")), gen.ExprStmt(gen.Id("b"))}})
	}},
	{"while-condition", false, func(b []*gen.Node) *gen.Node {
		return gen.Prog(&gen.Node{K: gen.KWhile, Kids: []*gen.Node{gen.Call(fnx(b)), {K: gen.KBlock}}})
	}},
	{"operand", false, func(b []*gen.Node) *gen.Node {
		return gen.Prog(gen.ExprStmt(gen.Asg("=", gen.Id("a"), gen.Bin("+", gen.Id("b"), gen.Bin("*", fnx(b), gen.Num("2"))))))
	}},
	{"return-value", false, func(b []*gen.Node) *gen.Node {
		return gen.Prog(&gen.Node{K: gen.KFuncDecl, Name: "outer", Kids: []*gen.Node{{K: gen.KReturn, Kids: []*gen.Node{fnx(b)}}}})
	}},
	{"iife", false, func(b []*gen.Node) *gen.Node { return gen.Prog(gen.ExprStmt(gen.Call(fnx(b), gen.Id("a")))) }},
	{"index", false, func(b []*gen.Node) *gen.Node {
		return gen.Prog(gen.ExprStmt(gen.Idx(gen.Id("a"), gen.Call(fnx(b)))))
	}},
	{"nested-function-expression", false, func(b []*gen.Node) *gen.Node {
		return gen.Prog(gen.Let("h", fnx([]*gen.Node{gen.Let("k", fnx(b)), {K: gen.KReturn, Kids: []*gen.Node{gen.Id("k")}}})))
	}},
	{"block-in-function", true, func(b []*gen.Node) *gen.Node {
		return gen.Prog(&gen.Node{K: gen.KFuncDecl, Name: "outer", Kids: []*gen.Node{{K: gen.KBlock, Kids: b}, gen.ExprStmt(gen.Id("a"))}})
	}},
	{"if-else-blocks", true, func(b []*gen.Node) *gen.Node {
		return gen.Prog(&gen.Node{K: gen.KIf, Kids: []*gen.Node{gen.Id("c"), {K: gen.KBlock, Kids: []*gen.Node{gen.ExprStmt(gen.Id("a"))}}, {K: gen.KBlock, Kids: b}}})
	}},
	{"for-body-block", true, func(b []*gen.Node) *gen.Node {
		return gen.Prog(&gen.Node{K: gen.KFor, Kids: []*gen.Node{gen.Let("i", gen.Num("0")), gen.Id("c"), nil, {K: gen.KBlock, Kids: b}}})
	}},
	{"while-body-block-in-block", true, func(b []*gen.Node) *gen.Node {
		return gen.Prog(&gen.Node{K: gen.KBlock, Kids: []*gen.Node{{K: gen.KWhile, Kids: []*gen.Node{gen.Id("c"), {K: gen.KBlock, Kids: b}}}}})
	}},
}

func fnx(body []*gen.Node) *gen.Node {
	return &gen.Node{K: gen.KFunc, Params: []string{"p"}, Kids: body}
}

func init() {
	nf := len(stmtForms)
	fw.Register(&fw.Property{
		ID: "C12", Level: "fault_enumeration",
		Rule: "for each valid program (accepted by xjs, acorn and V8) EVERY single-token deletion, EVERY statement-separator removal and EVERY truncation point inside a string / backtick string / open bracket pair / block is applied; corrupted texts that acorn AND V8 both reject must produce at least one strict-mode error, whose first range does not start before the last intact token. distinct = distinct corrupted programs (by source program).",
		Assumptions: []string{
			"'no longer valid JavaScript' = rejected by both acorn 8 and V8 (node 20); texts still valid for either are not judged",
			"programs are ASCII so that truncation never splits a UTF-8 sequence",
		},
		Teardown: closeEngine,
		Strata: []*fw.Stratum{
			{Name: "stmt-matrix", Quick: nf * nf / 4, Thorough: nf * nf, Run: func(t *fw.T) {
				idx := t.Index
				if !t.Thorough() {
					idx = (t.Index*4 + int(t.W.Seed)%4) % (nf * nf)
				}
				f1, f2 := stmtForms[idx/nf], stmtForms[idx%nf]
				var prog *gen.Node
				if f1.fn || f2.fn {
					prog = gen.Prog(&gen.Node{K: gen.KFuncDecl, Name: "outer", Kids: []*gen.Node{f1.mk(1), f2.mk(2)}})
				} else {
					prog = gen.Prog(f1.mk(1), f2.mk(2))
				}
				runC12(t, prog, c12Layouts[t.Index%len(c12Layouts)])
				t.Distinct(prog.S())
			}},
			{Name: "nested-statement-lists", Quick: len(nestingContexts) * nf * nf / 12, Thorough: len(nestingContexts) * nf * nf, Run: func(t *fw.T) {
				idx := t.Index
				if !t.Thorough() {
					idx = (t.Index*12 + int(t.W.Seed)%12) % (len(nestingContexts) * nf * nf)
				}
				c := nestingContexts[idx/(nf*nf)]
				f1, f2 := stmtForms[(idx/nf)%nf], stmtForms[idx%nf]
				if c.block && (f1.fn || f2.fn) {
					return
				}
				prog := c.mk([]*gen.Node{f1.mk(1), f2.mk(2)})
				runC12(t, prog, c12Layouts[t.Index%len(c12Layouts)])
				t.Distinct(prog.S())
				t.Feature("nesting-contexts", c.name)
			}},
			{Name: "known-finding-witnesses", Quick: 8, Thorough: 8, Run: func(t *fw.T) {
				// the stored witness of every open finding is re-run itself, so each listed finding is exercised by every run
				var mine []fw.Finding
				for _, f := range fw.LoadFindings() {
					if f.Property == "C12" && f.Status == "open" {
						mine = append(mine, f)
					}
				}
				if t.Index >= len(mine) {
					return
				}
				w, _ := mine[t.Index].Witness.(map[string]any)
				src, _ := w["input"].(string)
				if src == "" {
					return
				}
				ref, ok := acornTrees(t, []string{src}, true)
				if !ok {
					return
				}
				if ref[0].Err == "" || ref[0].V8 == "ok" {
					t.Inconclusive("stored witness of a known finding is valid JavaScript for a reference parser", src)
					return
				}
				po := parse(src, Mode{})
				if po.Err != nil {
					t.Count("stale_known_findings", 1)
					return
				}
				causes := leniencies(po.Prog)
				if len(causes) == 0 && templateAfterLineBreak(src) {
					causes = []string{"template literal after a line break"}
				}
				key := "stored witness / " + acornKey(ref[0].Err)
				if len(causes) > 0 {
					key = "leniency: " + causes[0]
				}
				t.Violate("silently-accepted", key, "strict mode accepts a text that is not JavaScript: "+src, map[string]any{"corrupted": src, "acorn": ref[0].Err, "v8": ref[0].V8})
				t.Distinct(src)
			}},
			{Name: "random", Quick: 4000, Thorough: 20000, Run: func(t *fw.T) {
				r := t.Rand()
				g := gen.NewSyn(r, gen.SynOpts{ExprDepth: 2 + r.IntN(3), StmtDepth: 1 + r.IntN(3), MaxStmts: 1 + r.IntN(4), EscStr: true})
				prog := g.Program()
				runC12(t, prog, c12Layouts[r.IntN(len(c12Layouts))])
				t.Distinct(prog.S())
				if t.WantSample() && prog.Size() < 30 {
					rd := gen.Render(prog, r, c12Layouts[0].E, c12Layouts[0].L)
					cs := corruptions(rd)
					if len(cs) > 3 {
						t.Sample(map[string]any{"stratum": "random", "program": rd.Src, "n_corruptions": len(cs), "example": cs[len(cs)/2].kind + ": " + cs[len(cs)/2].detail, "corrupted": cs[len(cs)/2].text})
					}
				}
			}},
		},
	})
}

func tokClass(t *gen.Tok) string {
	switch t.Kind {
	case gen.TIdent:
		return "id"
	case gen.TNum:
		return "num"
	case gen.TStr:
		return "str"
	case gen.TTpl:
		return "tpl"
	}
	return t.Text
}

func tokCtx(toks []gen.Tok, i int) string {
	if i < 0 {
		return "^"
	}
	if i >= len(toks) {
		return "$"
	}
	return tokClass(&toks[i])
}

// leniencies inspects a tree that xjs accepted and names the documented root causes for which
// ECMAScript would reject the text although xjs's grammar takes it (early errors and two grammar
// restrictions that xjs does not implement). Sorted, most specific first.
func leniencies(prog *ast.Program) []string {
	found := map[string]bool{}
	strip := func(e ast.Expression) ast.Expression {
		for {
			g, ok := e.(*ast.GroupedExpression)
			if !ok || g == nil {
				return e
			}
			e = g.Expression
		}
	}
	isTarget := func(e ast.Expression) bool {
		switch strip(e).(type) {
		case *ast.Identifier, *ast.MemberExpression:
			return true
		}
		return false
	}
	var expr func(e ast.Expression)
	var stmt func(s ast.Statement, inFn bool, single bool)
	// redeclared: a statement list that declares one name twice with `let`, or with `let` and a function declaration (or,
	// in a function body, a parameter) - an early error of ECMAScript that a parser without scope analysis cannot see
	redeclared := func(list []ast.Statement, params []*ast.Identifier) {
		lets, others := map[string]bool{}, map[string]bool{}
		for _, p := range params {
			if p != nil {
				others[p.Value] = true
			}
		}
		for _, s := range list {
			switch x := s.(type) {
			case *ast.LetStatement:
				if x != nil && x.Name != nil {
					if lets[x.Name.Value] || others[x.Name.Value] {
						found["redeclaration of a let-bound name in the same scope"] = true
					}
					lets[x.Name.Value] = true
				}
			case *ast.FunctionDeclaration:
				if x != nil && x.Name != nil {
					if lets[x.Name.Value] {
						found["redeclaration of a let-bound name in the same scope"] = true
					}
					others[x.Name.Value] = true
				}
			}
		}
	}
	var fnParams []*ast.Identifier
	block := func(b *ast.BlockStatement, inFn bool) {
		if b == nil {
			return
		}
		redeclared(b.Statements, fnParams)
		fnParams = nil
		for _, s := range b.Statements {
			stmt(s, inFn, false)
		}
	}
	expr = func(e ast.Expression) {
		if isNil(e) {
			return
		}
		switch x := e.(type) {
		case *ast.AssignmentExpression:
			if !isTarget(x.Left) {
				found["invalid assignment target"] = true
			}
			expr(x.Left)
			expr(x.Value)
		case *ast.CompoundAssignmentExpression:
			if !isTarget(x.Left) {
				found["invalid assignment target"] = true
			}
			expr(x.Left)
			expr(x.Value)
		case *ast.PostfixExpression:
			if !isTarget(x.Left) {
				found["invalid assignment target"] = true
			}
			expr(x.Left)
		case *ast.UnaryExpression:
			if (x.Operator == "++" || x.Operator == "--") && !isTarget(x.Right) {
				found["invalid assignment target"] = true
			}
			expr(x.Right)
		case *ast.BinaryExpression:
			expr(x.Left)
			expr(x.Right)
		case *ast.GroupedExpression:
			expr(x.Expression)
		case *ast.CallExpression:
			if _, ok := x.Function.(*ast.PostfixExpression); ok {
				found["call or member access applied to a postfix expression"] = true
			}
			expr(x.Function)
			for _, a := range x.Arguments {
				expr(a)
			}
		case *ast.MemberExpression:
			if _, ok := x.Object.(*ast.PostfixExpression); ok {
				found["call or member access applied to a postfix expression"] = true
			}
			expr(x.Object)
			if x.Computed {
				expr(x.Property)
			} else if _, ok := x.Property.(*ast.Identifier); !ok {
				found["member dot followed by a non-identifier"] = true
				expr(x.Property)
			}
		case *ast.ArrayLiteral:
			for _, a := range x.Elements {
				expr(a)
			}
		case *ast.ObjectLiteral:
			for _, p := range x.Properties {
				expr(p.Key)
				expr(p.Value)
			}
		case *ast.FunctionExpression:
			fnParams = x.Parameters
			block(x.Body, true)
		case *ast.LetExpression:
			expr(x.Value)
		}
	}
	stmt = func(s ast.Statement, inFn bool, single bool) {
		if isNil(s) {
			return
		}
		switch x := s.(type) {
		case *ast.LetStatement:
			if single {
				found["declaration in a single-statement position"] = true
			}
			expr(x.Value)
		case *ast.FunctionDeclaration:
			if single {
				found["declaration in a single-statement position"] = true
			}
			fnParams = x.Parameters
			block(x.Body, true)
		case *ast.ReturnStatement:
			if !inFn {
				found["return outside of a function"] = true
			}
			expr(x.ReturnValue)
		case *ast.ExpressionStatement:
			expr(x.Expression)
		case *ast.IfStatement:
			expr(x.Condition)
			stmt(x.ThenBranch, inFn, true)
			stmt(x.ElseBranch, inFn, true)
		case *ast.WhileStatement:
			expr(x.Condition)
			stmt(x.Body, inFn, true)
		case *ast.ForStatement:
			expr(x.Init)
			expr(x.Condition)
			expr(x.Update)
			stmt(x.Body, inFn, true)
		case *ast.BlockStatement:
			block(x, inFn)
		}
	}
	redeclared(prog.Statements, nil)
	for _, s := range prog.Statements {
		stmt(s, false, false)
	}
	var out []string
	for _, k := range []string{"member dot followed by a non-identifier", "return outside of a function", "declaration in a single-statement position", "call or member access applied to a postfix expression", "invalid assignment target", "redeclaration of a let-bound name in the same scope"} {
		if found[k] {
			out = append(out, k)
		}
	}
	return out
}

func isNil(x any) bool {
	if x == nil {
		return true
	}
	switch v := x.(type) {
	case ast.Expression:
		return walkNil(v)
	case ast.Statement:
		return walkNil(v)
	}
	return false
}

// templateAfterLineBreak: does the text contain a backtick string that follows an expression end across a
// line break? ECMAScript reads that as a tagged template continuing the expression (not in the subset);
// xjs starts a new statement.
func templateAfterLineBreak(src string) bool {
	lx := lexer.NewBuilder().Build(src)
	prev := token.Token{Type: token.SEMICOLON}
	for i := 0; i < len(src)+2; i++ {
		tk := lx.NextToken()
		if tk.Type == token.EOF {
			break
		}
		if tk.Type == token.RAW_STRING && tk.AfterNewline {
			switch prev.Type {
			case token.IDENT, token.INT, token.FLOAT, token.STRING, token.RAW_STRING, token.RPAREN, token.RBRACKET, token.RBRACE, token.TRUE, token.FALSE, token.NULL:
				return true
			}
		}
		prev = tk
	}
	return false
}
