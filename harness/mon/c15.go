package mon

import (
	"fmt"
	"math/rand/v2"
	"strings"

	"github.com/xjslang/xjs/lexer"
	"github.com/xjslang/xjs/parser"
	"github.com/xjslang/xjs/token"

	"verif/fw"
	"verif/gen"
	"verif/reflex"
)

// ---- C15: the pretty printer keeps statement-level comments; compact output has none ----

var payloadKinds = []struct {
	name string
	mk   func(r *rand.Rand, serial int) string
}{
	{"words", func(r *rand.Rand, n int) string { return fmt.Sprintf(" note %d about this", n) }},
	{"code-like", func(r *rand.Rand, n int) string {
		return fw.Pick(r, []string{" let x = 1;", " }", " {", " )", " if (a) {", " return", "x = y // z", " function f() {"}) + fmt.Sprintf(" #%d", n)
	}},
	{"quotes", func(r *rand.Rand, n int) string {
		return fw.Pick(r, []string{" \"quoted\"", " 'single", " it's", " \"unterminated", " `tick", " ``"}) + fmt.Sprintf(" #%d", n)
	}},
	{"slashes", func(r *rand.Rand, n int) string {
		return fw.Pick(r, []string{"//", "////", " /* not a block */", "/", " */", " a // b"}) + fmt.Sprintf(" #%d", n)
	}},
	{"backslash-end", func(r *rand.Rand, n int) string { return fmt.Sprintf(" #%d ends with \\", n) }},
	{"trailing-blanks", func(r *rand.Rand, n int) string {
		return fmt.Sprintf(" #%d trailing", n) + fw.Pick(r, []string{" ", "  ", "\t", " \t "})
	}},
	{"non-ascii", func(r *rand.Rand, n int) string {
		// the last character matters: its final UTF-8 byte may look like a blank to byte-wise code (à = C3 A0, Å = C3 85, х = D1 85)
		return fmt.Sprintf(" #%d ünïcödé ✓ ", n) + fw.Pick(r, []string{"日本", "voilà", "Å", "в цех", "é", "😀", "città", "\u00a0x", "x\u0085y", "ẅ", "꠰", "— em dash", "“quoted” text", "wait… more", "• bullet", "a‐b", "\u2003wide"})
	}},
	{"empty", func(r *rand.Rand, n int) string { return "" }},
	{"spaces-only", func(r *rand.Rand, n int) string { return fw.Pick(r, []string{" ", "   "}) }},
	{"long", func(r *rand.Rand, n int) string { return fmt.Sprintf(" #%d ", n) + strings.Repeat("long ", 60) }},
	{"no-space", func(r *rand.Rand, n int) string { return fmt.Sprintf("#%d", n) }},
	{"tool-annotation", func(r *rand.Rand, n int) string {
		return fw.Pick(r, []string{"# sourceMappingURL=out.js.map", "@ sourceMappingURL=out.js.map", "# sourceURL=a.js", " eslint-disable-next-line", " @ts-ignore", "/ <reference path=\"x\" />", " prettier-ignore", "! license"}) + fmt.Sprintf(" #%d", n)
	}},
}

func trimC(s string) string { return strings.TrimRight(s, " \t\r") }

func filterSemis(items []reflex.Item) []reflex.Item {
	var out []reflex.Item
	for _, it := range items {
		if it.Kind == reflex.Punct && it.Text == ";" {
			continue
		}
		out = append(out, it)
	}
	return out
}

func sigKey(it reflex.Item) string {
	if it.Kind == reflex.Str && len(it.Text) >= 2 {
		return "str:" + it.Text[1:len(it.Text)-1]
	}
	return it.Text
}

func parseReissue(src string) ParseOut {
	lb := lexer.NewBuilder()
	lb.UseTokenInterceptor(func(l *lexer.Lexer, next func() token.Token) token.Token {
		tok := next()
		if tok.Type == token.EOF {
			return tok
		}
		nt := l.NewTokenAt(tok.Type, tok.Literal, tok.Start.Line, tok.Start.Column)
		nt.End = tok.End
		return nt
	})
	p := parser.NewBuilder(lb).Build(src)
	prog, err := p.ParseProgram()
	return ParseOut{Prog: prog, Err: err, Errors: p.Errors(), P: p}
}

func runC15(t *fw.T) {
	r := t.Rand()
	o := gen.SynOpts{ExprDepth: 1 + r.IntN(3), StmtDepth: 1 + r.IntN(4), MaxStmts: 1 + r.IntN(4), Heavy: r.IntN(2) == 0}
	prog := gen.NewSyn(r, o).Program()
	if r.IntN(40) == 0 {
		prog.Kids = nil // a source that consists of comments and blank lines only: its statement list is empty
		t.Count("comment_only_sources", 1)
	}
	kinds := map[string]bool{}
	lay := gen.Layout{Semi: r.Float64(), Space: 1, StmtNL: 0.9, StmtDecor: 0.3 + r.Float64()*0.5, CRLF: r.IntN(6) == 0, LeadingBlank: true,
		Payload: func(r *rand.Rand, serial int) string {
			k := payloadKinds[r.IntN(len(payloadKinds))]
			if t.Index%5 != 0 && (k.name == "empty" || k.name == "spaces-only") {
				k = payloadKinds[0]
			}
			kinds[k.name] = true
			return k.mk(r, serial)
		}}
	// a quarter of the sources has long runs of comments and blank lines in some gaps (licence headers, boxed comments)
	if r.IntN(4) == 0 {
		lay.LongDecor = true
		t.Count("sources_with_long_comment_runs", 1)
	}
	// a third of the sources ends directly behind its last token (no trailing line break)
	if r.IntN(3) == 0 {
		lay.NoTrailingNL = true
		t.Count("sources_without_trailing_line_break", 1)
	}
	// one source in six leaves its innermost blocks open at end of input and is parsed in tolerant mode (which accepts
	// that, keeping every complete statement): the comments after the last statement now stand before the end of input
	mode := Mode{}
	plainLay := gen.Layout{Semi: 1, Space: 1, StmtNL: 1}
	if r.IntN(6) == 0 {
		lay.CutBrace = 1 + r.IntN(3)
		plainLay.CutBrace = lay.CutBrace
		mode = Mode{Tolerant: true}
	}
	rd := gen.Render(prog, r, gen.EmitOpts{Quote: 0}, lay)
	plain := gen.Render(prog, r, gen.EmitOpts{Quote: 0}, plainLay)
	if rd.CutBraces > 0 {
		t.Count("sources_with_blocks_left_open_parsed_in_tolerant_mode", 1)
	} else {
		mode = Mode{}
	}
	for k := range kinds {
		t.Feature("payload-kinds", k)
	}
	wit := func() map[string]any { return map[string]any{"source": rd.Src} }
	var po, pp ParseOut
	// a third of the sources is parsed through a token-rewriting plugin: a token interceptor that obtains each token from
	// next() and re-issues it with the lexer's own NewTokenAt (what a plugin does that retypes or merges tokens). The
	// re-issued token is the same token, so everything the property says about comments must hold unchanged.
	reissue := r.IntN(3) == 0 && !mode.Tolerant
	if reissue {
		t.Count("sources_parsed_through_a_token_reissuing_plugin", 1)
	}
	if !t.Guard("parse", wit, func() {
		if reissue {
			po = parseReissue(rd.Src)
		} else {
			po = parse(rd.Src, mode)
		}
		pp = parse(plain.Src, mode)
	}) {
		return
	}
	if po.Err != nil || pp.Err != nil {
		t.Inconclusive("source not accepted (C02's business)", rd.Src)
		return
	}
	hasEmpty := false
	for _, c := range rd.Comments {
		if trimC(c.Text) == "" {
			hasEmpty = true
		}
		if c.OwnLine {
			t.Feature("placement", "own-line")
		} else {
			t.Feature("placement", "trailing")
		}
		switch {
		case c.Before >= len(rd.Toks):
			t.Feature("boundary", "before end of input")
		case rd.Toks[c.Before].Text == "}":
			t.Feature("boundary", fmt.Sprintf("before closing brace (depth %d)", min(rd.Toks[c.Before].Depth, 3)))
		default:
			t.Feature("boundary", fmt.Sprintf("before statement (depth %d)", min(rd.Toks[c.Before].Depth, 3)))
		}
	}
	t.Count("comments_placed", len(rd.Comments))
	// ---- compact: no comment text, identical to the comment-free program's compact output
	var compact, compactPlain string
	if !t.Guard("compact", wit, func() { compact = CfgCompact.Compile(po.Prog).Code; compactPlain = CfgCompact.Compile(pp.Prog).Code }) {
		return
	}
	for _, it := range reflex.Scan(compact) {
		if it.Kind == reflex.Comment {
			t.Violate("compact-has-comment", "comment token in compact output", "compact output contains a comment: "+clip(compact, 200), map[string]any{"source": rd.Src, "compact": compact})
			return
		}
	}
	if compact != compactPlain {
		t.Violate("comment-alters-compact-code", firstDiffKind(compactPlain, compact), "compact output differs from that of the same program without comments: "+firstDiff(compactPlain, compact), map[string]any{"source": rd.Src, "compact": compact, "compact_without_comments": compactPlain})
		return
	}
	// ---- pretty
	cfgs := []Cfg{CfgPretty, prettyCfgs()[r.IntN(20)]}
	if r.IntN(2) == 0 {
		// half of the programs are first printed with a source map requested (comments are written all the same), then
		// again without: the same tree, the same comments
		first := prettyCfgs()[r.IntN(20)]
		first.Map = true
		cfgs = append([]Cfg{first}, cfgs...)
	}
	// every second case prints through this worker's long-lived Compiler values (the printer is a value users keep)
	reused := (t.Index/16)%2 == 1
	if reused {
		t.Count("programs_printed_through_long_lived_compilers", 1)
	}
	if t.Thorough() {
		cfgs = append(cfgs, prettyCfgs()[r.IntN(20)], prettyCfgs()[r.IntN(20)])
	}
	srcToksF := filterSemis(reflex.Tokens(reflex.Scan(rd.Src)))
	// index (in the ';'-filtered token sequence of the source) of the token each comment precedes
	srcItems := reflex.Scan(rd.Src)
	type cpos struct {
		text string
		next int
	}
	var srcComments []cpos
	{
		k := 0
		for _, it := range srcItems {
			switch {
			case it.Kind == reflex.Comment:
				srcComments = append(srcComments, cpos{trimC(it.Text[2:]), k})
			case it.Kind == reflex.Punct && it.Text == ";":
			default:
				k++
			}
		}
	}
	if len(srcComments) != len(rd.Comments) {
		t.Count("oracle_selfcheck_failures", 1)
		t.Inconclusive("oracle self-check: reference tokenizer and renderer disagree on the comments of the source", rd.Src)
		return
	}
	for _, c := range cfgs {
		var pretty, prettyPlain string
		w := func() map[string]any {
			return map[string]any{"source": rd.Src, "options": c.String(), "formatted": pretty, "long_lived_compiler": reused, "parser_mode": mode.String()}
		}
		if !t.Guard("pretty", w, func() {
			if reused {
				pretty = c.CompileReused(po.Prog).Code
			} else {
				pretty = c.Compile(po.Prog).Code
			}
			prettyPlain = c.Compile(pp.Prog).Code
		}) {
			continue
		}
		t.Count("pretty_outputs_checked", 1)
		outItems := reflex.Scan(pretty)
		var outComments []cpos
		k := 0
		var outToksF []reflex.Item
		for _, it := range outItems {
			switch {
			case it.Kind == reflex.Comment:
				outComments = append(outComments, cpos{trimC(it.Text[2:]), k})
			case it.Kind == reflex.Punct && it.Text == ";":
			default:
				k++
				outToksF = append(outToksF, it)
			}
		}
		// significant tokens unchanged by comments
		plainToksF := filterSemis(reflex.Tokens(reflex.Scan(prettyPlain)))
		if len(plainToksF) != len(outToksF) {
			t.Violate("comment-alters-code", optKey(c)+"/token count", fmt.Sprintf("formatted output has %d significant tokens, the comment-free program's has %d", len(outToksF), len(plainToksF)), w())
			continue
		}
		bad := false
		for i := range outToksF {
			if sigKey(outToksF[i]) != sigKey(plainToksF[i]) {
				t.Violate("comment-alters-code", optKey(c)+"/token text", fmt.Sprintf("significant token #%d is %q, in the comment-free program's output %q", i, outToksF[i].Text, plainToksF[i].Text), w())
				bad = true
				break
			}
		}
		if bad {
			continue
		}
		// a printer may or may not write the closing braces of blocks that the (tolerantly parsed) source left open
		// (token positions are compared only when the output's significant tokens ARE the source's, in order - a printer that
		// drops or adds tokens elsewhere, e.g. redundant parentheses, is compared by comment text and order only)
		sameToks := len(outToksF) == len(srcToksF) || len(outToksF) == len(srcToksF)+rd.CutBraces
		for i := 0; sameToks && i < len(outToksF); i++ {
			if i < len(srcToksF) {
				a, b := outToksF[i], srcToksF[i]
				// literals may be re-spelled (quote style, escapes, radix case): same kind is enough here
				sameToks = a.Kind == b.Kind && (a.Kind == reflex.Str || a.Kind == reflex.Num || a.Kind == reflex.Tpl || a.Text == b.Text)
			} else {
				sameToks = outToksF[i].Text == "}"
			}
		}
		if !sameToks {
			t.Inconclusive("token count of output differs from source (printer adds/removes tokens): comment placement compared by text only", rd.Src)
		}
		// every comment exactly once, verbatim, in order, in front of the same token
		if len(outComments) != len(srcComments) {
			kind := "missing"
			if len(outComments) > len(srcComments) {
				kind = "duplicated"
			}
			// find the first one that differs for the key
			where := "?"
			for i := range srcComments {
				if i >= len(outComments) || outComments[i].text != srcComments[i].text {
					where = boundaryOf(rd, i)
					break
				}
			}
			if len(outComments) > len(srcComments) && where == "?" {
				where = "extra at end"
			}
			if hasEmpty {
				where += " (empty comment present)"
			}
			t.Violate("comment-"+kind, where, fmt.Sprintf("%d comments in the source, %d in the formatted output (%s): %s", len(srcComments), len(outComments), where, clip(pretty, 300)), w())
			continue
		}
		for i := range srcComments {
			if outComments[i].text != srcComments[i].text {
				t.Violate("comment-altered-or-reordered", boundaryOf(rd, i), fmt.Sprintf("comment #%d is %q in the source and %q in the formatted output", i, srcComments[i].text, outComments[i].text), w())
				bad = true
				break
			}
			if sameToks && outComments[i].next != srcComments[i].next {
				t.Violate("comment-moved", boundaryOf(rd, i), fmt.Sprintf("comment #%d %q precedes significant token #%d in the source but #%d in the formatted output", i, srcComments[i].text, srcComments[i].next, outComments[i].next), w())
				bad = true
				break
			}
		}
		if bad {
			continue
		}
		// blank-line separation between sibling statements is kept
		if sameToks {
			// map filtered token index -> has blank run in its preceding gap (output)
			blankBefore := map[int]bool{}
			k := 0
			pending := false
			for _, it := range outItems {
				if it.BlankRun > 0 {
					pending = true
				}
				if it.Kind == reflex.Comment || (it.Kind == reflex.Punct && it.Text == ";") {
					continue
				}
				blankBefore[k] = pending
				pending = false
				k++
			}
			fi := 0
			for i, tk := range rd.Toks {
				if tk.Kind == gen.TPunct && tk.Text == ";" {
					continue
				}
				if tk.StmtStart && tk.Boundary && tk.BlankBefore > 0 && i > 0 && !firstInList(rd, i) {
					t.Count("blank_separations_checked", 1)
					if !blankBefore[fi] {
						t.Violate("blank-line-lost", "between sibling statements", fmt.Sprintf("blank line before statement starting with %q (%d:%d) is not kept", tk.Text, tk.Line, tk.Col), w())
						break
					}
				}
				fi++
			}
		}
	}
	t.Distinct(rd.Src)
	if t.WantSample() && len(rd.Src) < 260 && len(rd.Comments) > 1 {
		t.Sample(map[string]any{"stratum": "decorated-programs", "source": rd.Src})
	}
}

func firstInList(rd *gen.Rendered, i int) bool {
	// the previous significant token opens the list ('{') => first statement of its list
	for j := i - 1; j >= 0; j-- {
		if rd.Toks[j].Virtual {
			continue
		}
		return rd.Toks[j].Text == "{" && rd.Toks[j].Depth < rd.Toks[i].Depth
	}
	return true
}

func boundaryOf(rd *gen.Rendered, i int) string {
	if i >= len(rd.Comments) {
		return "?"
	}
	c := rd.Comments[i]
	pl := "trailing"
	if c.OwnLine {
		pl = "own-line"
	}
	switch {
	case c.Before >= len(rd.Toks):
		return pl + " comment before end of input"
	case rd.Toks[c.Before].Text == "}":
		return pl + " comment before closing brace"
	case c.Before == 0:
		return pl + " comment first in file"
	}
	return pl + " comment before statement"
}

func init() {
	fw.Register(&fw.Property{
		ID: "C15", Level: "exploration",
		Rule: "generated programs are decorated at statement-list gaps only (before a statement, before a closing brace, before end of input; own-line or trailing; any depth) with // comments of 11 hostile payload kinds and blank-line runs; ground truth = which token each comment precedes. Checked: pretty output carries every comment once, verbatim up to trailing blanks, in order, in front of the same significant token (modulo ';'); blank lines between sibling statements kept; significant tokens of pretty output equal those of the comment-free program; compact output has no comment and equals the comment-free program's compact output byte for byte. distinct = distinct decorated sources.",
		Assumptions: []string{
			"comments inside expressions are not part of this property (statement-level only)",
			"comment text is compared up to trailing blanks (space, tab, CR)",
		},
		Strata: []*fw.Stratum{
			{Name: "decorated-programs", Quick: 100000, Thorough: 500000, Run: runC15},
		},
	})
}
