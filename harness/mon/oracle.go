package mon

import (
	"regexp"
	"strings"

	"verif/fw"
	"verif/jseng"
)

// engine returns the worker's reference engine (started lazily).
func engine(t *fw.T) *jseng.Engine {
	if e, ok := t.W.State["engine"].(*jseng.Engine); ok {
		return e
	}
	e, _ := jseng.New()
	t.W.State["engine"] = e
	return e
}

func closeEngine(w *fw.Worker) {
	if e, ok := w.State["engine"].(*jseng.Engine); ok && e != nil {
		e.Close()
	}
}

// acornTrees parses texts with the reference parser. ok=false means the oracle
// is unavailable for this batch (inconclusive, already counted).
func acornTrees(t *fw.T, texts []string, v8 bool) ([]jseng.ParseResult, bool) {
	e := engine(t)
	res, err := e.Parse(texts, v8)
	if err != nil {
		t.Inconclusive("reference parser (node/acorn) unavailable", err.Error())
		return nil, false
	}
	if len(res) > 0 && res[0].NoAcorn {
		t.Inconclusive("reference parser (node/acorn) unavailable", "acorn not exposed by this node")
		return nil, false
	}
	return res, true
}

var sTok = regexp.MustCompile(`\(|\)|"(?:[^"\\]|\\.)*"|[^\s()]+`)

// diffKey summarises where two S-expressions first differ: the heads of the
// innermost enclosing forms on each side. Used as the class key of tree mismatches.
func diffKey(want, got string) string {
	a := sTok.FindAllString(want, -1)
	b := sTok.FindAllString(got, -1)
	i := 0
	for i < len(a) && i < len(b) && a[i] == b[i] {
		i++
	}
	head := func(x []string, i int) string {
		if i >= len(x) {
			i = len(x) - 1
		}
		depth := 0
		for j := i; j >= 0; j-- {
			switch x[j] {
			case ")":
				if j != i {
					depth++
				}
			case "(":
				if depth == 0 {
					h := "("
					if j+1 < len(x) {
						h += x[j+1]
					}
					if j+2 < len(x) && (x[j+1] == "bin" || x[j+1] == "un" || x[j+1] == "post" || x[j+1] == "asg") {
						h += " " + x[j+2]
					}
					return h
				}
				depth--
			}
		}
		return "top"
	}
	at := func(x []string, i int) string {
		if i >= len(x) {
			return "<end>"
		}
		tk := x[i]
		if strings.HasPrefix(tk, `"`) {
			return "<string>"
		}
		if tk != "(" && tk != ")" && !isHeadWord(tk) {
			return "<leaf>"
		}
		if tk == "(" && i+1 < len(x) {
			return "(" + x[i+1]
		}
		return tk
	}
	return "want " + head(a, i) + " " + at(a, i) + " / got " + head(b, i) + " " + at(b, i)
}

func isHeadWord(s string) bool {
	switch s {
	case "program", "let", "func", "return", "if", "while", "for", "block", "expr", "id", "num", "str", "tpl", "true", "false", "null",
		"arr", "obj", "prop", "fn", "un", "post", "bin", "asg", "call", "dot", "idx", "grp", "_":
		return true
	}
	return false
}

var reQuoted = regexp.MustCompile(`"[^"]*"|'[^']*'`)
var reNumber = regexp.MustCompile(`[0-9]+`)

// errKey abstracts a parser error message into a class key.
func errKey(msg string) string {
	if strings.HasPrefix(msg, "unexpected ") {
		rest := strings.TrimPrefix(msg, "unexpected ")
		switch {
		case rest == "":
			return "unexpected <empty>"
		case len(rest) <= 2 && !isIdentByte(rest[0]):
			return "unexpected " + rest
		case rest == "else" || rest == "let" || rest == "function" || rest == "return" || rest == "if" || rest == "while" || rest == "for":
			return "unexpected " + rest
		default:
			return "unexpected <token>"
		}
	}
	msg = reQuoted.ReplaceAllString(msg, "<q>")
	msg = reNumber.ReplaceAllString(msg, "N")
	return msg
}

func isIdentByte(c byte) bool {
	return c == '_' || c == '$' || (c >= '0' && c <= '9') || (c >= 'a' && c <= 'z') || (c >= 'A' && c <= 'Z')
}
