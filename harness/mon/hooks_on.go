//go:build verif

package mon

import (
	"github.com/xjslang/xjs/parser"
	"github.com/xjslang/xjs/token"
)

const HooksAvailable = true

func hookStack(p *parser.Parser) ([]parser.ContextType, bool) { return p.VerifContextStack(), true }
func hookExprPrec(p *parser.Parser) (int, bool)               { return p.VerifExprPrecedence(), true }
func hookPrecs(p *parser.Parser) (map[token.Type]int, bool)   { return p.VerifPrecedences(), true }
func hookBuiltinPrecs() (map[token.Type]int, bool)            { return parser.VerifBuiltinPrecedences(), true }
