package mon

import (
	"encoding/json"
	"fmt"
	"math/rand/v2"
	"strings"

	gosm "github.com/go-sourcemap/sourcemap"
	"github.com/xjslang/xjs/sourcemap"

	"verif/fw"
	"verif/smdecode"
)

// ---- C09: mapping encoding conforms to Source Map v3 ----------------------
//
// Reference model: an absolute list of recorded mappings plus an own position
// tracker. The map produced by the real builder is decoded by the independent
// decoder and compared field by field.

type smOp struct {
	Op   string `json:"op"`
	A    int    `json:"a,omitempty"`
	B    int    `json:"b,omitempty"`
	Name string `json:"name,omitempty"`
	S    string `json:"s,omitempty"`
}

type smModel struct {
	line, col int
	segs      []smdecode.Seg
	names     []string
	idx       map[string]int
}

func (m *smModel) apply(o smOp) {
	switch o.Op {
	case "map":
		m.segs = append(m.segs, smdecode.Seg{GenLine: m.line, GenCol: m.col, Fields: 4, SrcLine: o.A, SrcCol: o.B})
	case "named":
		if m.idx == nil {
			m.idx = map[string]int{}
		}
		i, ok := m.idx[o.Name]
		if !ok {
			i = len(m.names)
			m.names = append(m.names, o.Name)
			m.idx[o.Name] = i
		}
		m.segs = append(m.segs, smdecode.Seg{GenLine: m.line, GenCol: m.col, Fields: 5, SrcLine: o.A, SrcCol: o.B, Name: i})
	case "col":
		m.col += o.A
	case "line":
		m.line++
		m.col = 0
	case "str":
		s := o.S
		for i := 0; i < len(s); i++ {
			switch s[i] {
			case '\r':
				if i+1 < len(s) && s[i+1] == '\n' {
					i++
				}
				m.line++
				m.col = 0
			case '\n':
				m.line++
				m.col = 0
			default:
				m.col++ // column unit of the builder is bytes (xjs tokens use byte columns)
			}
		}
	}
}

func applyReal(sm *sourcemap.SourceMapper, o smOp) {
	switch o.Op {
	case "map":
		sm.AddMapping(o.A, o.B)
	case "named":
		sm.AddNamedMapping(o.A, o.B, o.Name)
	case "col":
		sm.AdvanceColumn(o.A)
	case "line":
		sm.AdvanceLine()
	case "str":
		sm.AdvanceString(o.S)
	}
}

// checkSMHistory runs ops on the real builder and the model and compares.
func checkSMHistory(t *fw.T, ops []smOp, label string) {
	var model smModel
	var res *sourcemap.SourceMap
	readTwiceDiffers := false
	wit := func() map[string]any {
		o := ops
		if len(o) > 60 {
			o = o[:60]
		}
		return map[string]any{"ops_prefix": o, "n_ops": len(ops), "label": label}
	}
	ok := t.Guard("sourcemap builder", wit, func() {
		sm := sourcemap.New()
		// reading the map is not an operation of the history: on every third history the map is also requested in the
		// middle (every 7th step) and twice at the end; the final map must be what the whole history produces
		peek := len(ops)%3 == 0
		for i, o := range ops {
			applyReal(sm, o)
			if peek && i%7 == 3 {
				sm.SourceMap()
			}
		}
		res = sm.SourceMap()
		if len(ops)%4 == 1 {
			// another builder is created and used after this one's map was read; then this one's map is read again: builders
			// share nothing, also not storage they gave back
			t.Count("histories_followed_by_another_builder_before_a_second_read", 1)
			other := sourcemap.New()
			for i, o := range ops {
				if i >= 40 {
					break
				}
				o2 := o
				o2.A, o2.B = o.B+1, o.A+2
				if o2.Op == "named" {
					o2.Name = o.Name + "_other"
				}
				applyReal(other, o2)
			}
			other.AddNamedMapping(7, 7, "other_builder")
			other.SourceMap()
			if again := sm.SourceMap(); again == nil || again.Mappings != res.Mappings || strings.Join(again.Names, "\x00") != strings.Join(res.Names, "\x00") {
				res = nil
				readTwiceDiffers = true
			}
		}
		if peek && res != nil {
			t.Count("histories_with_intermediate_reads", 1)
			if again := sm.SourceMap(); again == nil || again.Mappings != res.Mappings || strings.Join(again.Names, "\x00") != strings.Join(res.Names, "\x00") {
				res = nil
				readTwiceDiffers = true
			}
		}
	})
	if !ok {
		return
	}
	if readTwiceDiffers {
		t.Violate("read-not-idempotent", label, "a second SourceMap() call on the same builder (directly, or after another builder was used) returns a different map", wit())
		return
	}
	for _, o := range ops {
		model.apply(o)
	}
	if res == nil {
		t.Violate("nil-map", label, "SourceMap() returned nil", wit())
		return
	}
	if res.Version != 3 {
		t.Violate("version", label, fmt.Sprintf("version=%d", res.Version), wit())
	}
	for i := 0; i < len(res.Mappings); i++ {
		c := res.Mappings[i]
		if !(c == ',' || c == ';' || strings.IndexByte("ABCDEFGHIJKLMNOPQRSTUVWXYZabcdefghijklmnopqrstuvwxyz0123456789+/", c) >= 0) {
			t.Violate("alphabet", label, fmt.Sprintf("character %q in mappings", c), wit())
			return
		}
	}
	segs, err := smdecode.Decode(res.Mappings)
	if err != nil {
		w := wit()
		w["mappings"] = clip(res.Mappings, 400)
		t.Violate("undecodable", label, "mappings do not decode: "+err.Error(), w)
		return
	}
	if len(segs) != len(model.segs) {
		w := wit()
		w["mappings"] = clip(res.Mappings, 400)
		t.Violate("segment-count", label, fmt.Sprintf("decoded %d segments, recorded %d", len(segs), len(model.segs)), w)
		return
	}
	for i := range segs {
		a, b := segs[i], model.segs[i]
		if a.Fields < 4 {
			t.Violate("segment-fields", label, fmt.Sprintf("segment %d has %d fields", i, a.Fields), wit())
			return
		}
		if a.Src != 0 {
			t.Violate("source-index", label, fmt.Sprintf("segment %d has source index %d", i, a.Src), wit())
			return
		}
		field := ""
		switch {
		case a.GenLine != b.GenLine:
			field = "generated-line"
		case a.GenCol != b.GenCol:
			field = "generated-column"
		case a.SrcLine != b.SrcLine:
			field = "source-line"
		case a.SrcCol != b.SrcCol:
			field = "source-column"
		case a.Fields != b.Fields:
			field = "name-presence"
		case a.Fields == 5 && a.Name != b.Name:
			field = "name-index"
		}
		if field != "" {
			w := wit()
			w["segment"] = i
			w["decoded"] = a
			w["recorded"] = b
			w["mappings"] = clip(res.Mappings, 400)
			t.Violate("segment-mismatch", label+"/"+field, fmt.Sprintf("segment %d: %s decoded %+v recorded %+v", i, field, a, b), w)
			return
		}
	}
	if len(res.Names) != len(model.names) {
		t.Violate("names", label, fmt.Sprintf("names=%v, first-seen order=%v", clipList(res.Names), clipList(model.names)), wit())
		return
	}
	for i := range res.Names {
		if res.Names[i] != model.names[i] {
			t.Violate("names", label, fmt.Sprintf("names[%d]=%q, first-seen order says %q", i, res.Names[i], model.names[i]), wit())
			return
		}
	}
	// Cross-check the decoder itself against go-sourcemap on a sample of lookups
	// (only possible when the map is well-formed for that library: it needs sources).
	if t.Index%16 == 0 && len(segs) > 0 && len(segs) < 5000 {
		crossCheckGoSM(t, res, segs)
	}
	t.Count("segments_decoded", len(segs))
}

func crossCheckGoSM(t *fw.T, res *sourcemap.SourceMap, segs []smdecode.Seg) {
	doc := map[string]any{"version": 3, "sources": []string{"s.xjs"}, "names": res.Names, "mappings": res.Mappings}
	if res.Names == nil {
		doc["names"] = []string{}
	}
	b, _ := json.Marshal(doc)
	var c *gosm.Consumer
	var err error
	func() {
		defer func() {
			if r := recover(); r != nil {
				err = fmt.Errorf("panic: %v", r)
			}
		}()
		c, err = gosm.Parse("", b)
	}()
	if err != nil {
		t.Inconclusive("second decoder (go-sourcemap) rejects a map the own decoder accepts", err.Error())
		return
	}
	// go-sourcemap needs non-negative positions and sorted segments for lookup: only
	// compare segments that are the last one at their generated position and sorted.
	for i, s := range segs {
		if s.SrcLine < 0 || s.SrcCol < 0 || s.GenCol < 0 {
			return
		}
		if i > 0 && (segs[i-1].GenLine > s.GenLine || (segs[i-1].GenLine == s.GenLine && segs[i-1].GenCol >= s.GenCol)) {
			return
		}
	}
	for _, s := range segs {
		var line, col int
		var ok bool
		func() {
			defer func() {
				if r := recover(); r != nil {
					ok = false
				}
			}()
			_, _, line, col, ok = c.Source(s.GenLine+1, s.GenCol)
		}()
		if !ok {
			t.Inconclusive("second decoder (go-sourcemap) finds no mapping where own decoder has one", fmt.Sprint(s))
			return
		}
		if line != s.SrcLine+1 || col != s.SrcCol {
			t.Inconclusive("decoders disagree", fmt.Sprintf("%+v vs line=%d col=%d", s, line, col))
			return
		}
	}
	t.Count("maps_cross_checked_with_go_sourcemap", 1)
}

func clip(s string, n int) string {
	if len(s) > n {
		return s[:n] + "…"
	}
	return s
}
func clipList(s []string) []string {
	if len(s) > 12 {
		return s[:12]
	}
	return s
}

var smNamePool = []string{"a", "b", "foo", "bar", "x1", "$", "_", "longIdentifierName"}

func randSMName(r *rand.Rand) string {
	if fw.Chance(r, 0.8) {
		return fw.Pick(r, smNamePool)
	}
	if fw.Chance(r, 0.5) {
		// names are arbitrary strings for the builder: bytes that are no UTF-8 (Latin-1 text), names that differ in such a
		// byte, in letter case, in a trailing blank or in a NUL only, quotes and backslashes, long names
		return fw.Pick(r, []string{"caf\xe9", "caf\xe8", "caf\xc3\xa9", "\xff", "\xfe", "\xc3", "a\x00", "a\x00b", "a", "A", "a ", " a", "\"", "\\", "a\"b", "a\\", "\n", "a\nb", "\r",
			"\ufffd", "\xef\xbf\xbd", "caf\ufffd", strings.Repeat("n", 300), strings.Repeat("n", 301), strings.Repeat("é", 130), "𝒳", "\xed\xa0\x80", "0", "00", "constructor", "__proto__", "toString"})
	}
	n := 1 + r.IntN(6)
	b := make([]byte, n)
	for i := range b {
		if r.IntN(8) == 0 {
			b[i] = byte(r.IntN(256))
		} else {
			b[i] = "abcdefgXYZ_$019"[r.IntN(15)]
		}
	}
	return string(b)
}

func randSMString(r *rand.Rand) string {
	// only LF, CR LF and CR are line breaks for the builder (the statement names exactly these): U+2028 / U+2029 / NEL,
	// their neighbours in the E2 80 xx block, form feed, vertical tab and stray UTF-8 bytes are ordinary column advances
	pieces := []string{"a", " ", "\n", "\r", "\r\n", "é", "xyz", "\t", "日本", ";", "\n\n",
		"\u2028", "\u2029", "\u0085", "\u2027", "\u202a", "€", "\xe2", "\xe2\x80", "\x80\xa8", "\f", "\v", "\x00"}
	n := r.IntN(8)
	var sb strings.Builder
	for i := 0; i < n; i++ {
		if r.IntN(8) == 0 {
			// long runs without a line break: a line break may sit at any offset of a long chunk (16, 32, 64 ... bytes in)
			sb.WriteString(strings.Repeat("x", r.IntN(70)))
			continue
		}
		sb.WriteString(fw.Pick(r, pieces))
	}
	// chunks may end in a lone CR (and may be exactly "\r"); genSMHistory keeps an LF from directly following it
	return sb.String()
}

func randPos(r *rand.Rand) int {
	switch r.IntN(10) {
	case 0:
		return 0
	case 1:
		return r.IntN(1 << 20)
	case 2:
		return r.IntN(1 << 30)
	default:
		return r.IntN(200)
	}
}

func genSMHistory(r *rand.Rand, maxLen int) []smOp {
	n := r.IntN(maxLen + 1)
	ops := make([]smOp, 0, n)
	// profile biases
	pNamed := r.Float64()
	pLine := r.Float64() * 0.4
	// crOpen: the last position-advancing operation was a string ending in a lone CR. An LF at the start of the next
	// advanced string would then be a line break split across two calls; the statement does not say whether that is one
	// break or two, so it is not generated (recording a mapping in between does not advance and does not close it).
	crOpen := false
	for i := 0; i < n; i++ {
		x := r.Float64()
		switch {
		case x < 0.35:
			if r.Float64() < pNamed {
				ops = append(ops, smOp{Op: "named", A: randPos(r), B: randPos(r), Name: randSMName(r)})
			} else {
				ops = append(ops, smOp{Op: "map", A: randPos(r), B: randPos(r)})
			}
		case x < 0.35+pLine:
			ops = append(ops, smOp{Op: "line"})
			crOpen = false
		case x < 0.8:
			c := r.IntN(301)
			ops = append(ops, smOp{Op: "col", A: c})
			if c > 0 {
				crOpen = false
			}
		default:
			s := randSMString(r)
			if r.IntN(8) == 0 {
				s = fw.Pick(r, []string{"\r", "\n", "\r\n", "a", "", " ", "\r\r", "\n\r"}) // single-character chunks
			}
			if strings.HasPrefix(s, "\n") && crOpen {
				s = "a" + s
			}
			ops = append(ops, smOp{Op: "str", S: s})
			if s != "" {
				crOpen = strings.HasSuffix(s, "\r")
			}
		}
	}
	return ops
}

const vlqChunk = 4096
const vlqRange = 1 << 20

func init() {
	nChunks := (2*vlqRange + 1 + vlqChunk - 1) / vlqChunk
	fields := []string{"source-line", "source-column", "generated-column", "name-index"}
	strata := []*fw.Stratum{}
	for _, f := range fields {
		f := f
		n := nChunks
		if f == "generated-column" {
			// AdvanceColumn only ever moves forward within a line: deltas 0..2^20
			n = (vlqRange + 1 + vlqChunk - 1) / vlqChunk
		}
		if f == "name-index" {
			// name-index deltas need that many distinct names; explored to ±2^12 exhaustively
			n = (2*(1<<12) + 1 + vlqChunk - 1) / vlqChunk
		}
		strata = append(strata, &fw.Stratum{
			Name: "vlq-exhaustive/" + f, Quick: n, Thorough: n, Exhaustive: true,
			Run: func(t *fw.T) { runVLQChunk(t, f) },
		})
	}
	strata = append(strata,
		&fw.Stratum{Name: "vlq-large-magnitudes", Quick: 64, Thorough: 512, Run: runVLQLarge},
		&fw.Stratum{Name: "histories", Quick: 60000, Thorough: 400000, Run: func(t *fw.T) {
			r := t.Rand()
			max := 200
			if t.Index%10 == 0 {
				max = 12
			}
			ops := genSMHistory(r, max)
			checkSMHistory(t, ops, "history")
			t.Distinct(fmt.Sprint(ops))
			for _, o := range ops {
				t.Feature("ops", o.Op)
			}
			if t.WantSample() && len(ops) > 3 && len(ops) < 14 {
				t.Sample(map[string]any{"stratum": "histories", "ops": ops})
			}
		}},
		&fw.Stratum{Name: "edge-histories", Quick: 8, Thorough: 8, Exhaustive: true, Run: runSMEdges},
	)
	fw.Register(&fw.Property{
		ID: "C09", Level: "exploration",
		Rule: "operation histories on sourcemap.New() checked in lock-step against a sequential reference model; the emitted mappings string is decoded by an independent decoder. " +
			"vlq-exhaustive strata enumerate every delta in [-2^20,2^20] for source line and source column, [0,2^20] for generated column (name index: [-2^12,2^12]); distinct = distinct delta values / distinct op sequences (hash set).",
		Assumptions: []string{
			"column unit of AdvanceString is bytes (xjs token columns are byte offsets); multibyte text is generated and judged with that unit",
			"a CR ending one AdvanceString call followed by LF starting the next is not generated (statement is silent on breaks split across calls)",
			"own decoder is the deciding decoder; go-sourcemap is a cross-check whose disagreement is inconclusive",
		},
		Strata: strata,
	})
}

// runVLQChunk: one mapper whose consecutive deltas of one field enumerate a chunk of [-2^20, 2^20].
func runVLQChunk(t *fw.T, field string) {
	lo := -vlqRange + t.Index*vlqChunk
	rng := vlqRange
	if field == "name-index" {
		rng = 1 << 12
		lo = -rng + t.Index*vlqChunk
	}
	if field == "generated-column" {
		lo = t.Index * vlqChunk
	}
	hi := lo + vlqChunk - 1
	if hi > rng {
		hi = rng
	}
	var ops []smOp
	switch field {
	case "source-line", "source-column":
		// absolute value alternates around a base so deltas are exactly d: positions p0, p0+d ...
		for d := lo; d <= hi; d++ {
			// go to a base from which +d stays non-negative, then apply the delta d itself
			base := 0
			if d < 0 {
				base = -d
			}
			if field == "source-line" {
				ops = append(ops, smOp{Op: "map", A: base, B: 7}, smOp{Op: "col", A: 1}, smOp{Op: "map", A: base + d, B: 7})
			} else {
				ops = append(ops, smOp{Op: "map", A: 3, B: base}, smOp{Op: "col", A: 1}, smOp{Op: "map", A: 3, B: base + d})
			}
			ops = append(ops, smOp{Op: "col", A: 1})
		}
	case "generated-column":
		// generated column deltas within a line are non-negative by construction of the API (AdvanceColumn(n))
		for d := lo; d <= hi; d++ {
			ops = append(ops, smOp{Op: "col", A: d})
			ops = append(ops, smOp{Op: "map", A: 1, B: 1})
			if d%97 == 0 {
				ops = append(ops, smOp{Op: "line"})
			}
		}
	case "name-index":
		// intern 2^12+1 names first (each use is itself a checked named mapping), then jump between them
		n := rng + 1
		for i := 0; i < n; i++ {
			ops = append(ops, smOp{Op: "named", A: 0, B: i, Name: fmt.Sprintf("n%d", i)})
		}
		cur := n - 1
		for d := lo; d <= hi; d++ {
			next := cur + d
			if next < 0 || next >= n {
				// re-centre so that delta d is expressible
				c := 0
				if d < 0 {
					c = n - 1
				}
				ops = append(ops, smOp{Op: "named", A: 0, B: 0, Name: fmt.Sprintf("n%d", c)})
				cur = c
				next = cur + d
			}
			ops = append(ops, smOp{Op: "named", A: 0, B: 0, Name: fmt.Sprintf("n%d", next)})
			cur = next
			if d%5 == 0 {
				ops = append(ops, smOp{Op: "map", A: 0, B: 0}) // unnamed segment in between: name delta must carry over
			}
		}
	}
	checkSMHistory(t, ops, "vlq/"+field)
	for d := lo; d <= hi; d++ {
		t.Distinct(fmt.Sprintf("%s:%d", field, d))
	}
	t.Count("vlq_deltas_enumerated", hi-lo+1)
	if t.Index == 0 && field == "source-line" {
		t.Sample(map[string]any{"stratum": "vlq-exhaustive/source-line", "deltas": fmt.Sprintf("%d..%d", lo, hi), "ops_prefix": ops[:6]})
	}
}

func runVLQLarge(t *fw.T) {
	r := t.Rand()
	var ops []smOp
	cur := 0
	for i := 0; i < 200; i++ {
		var mag int
		switch r.IntN(3) {
		case 0:
			mag = 1 << uint(r.IntN(32))
			mag += r.IntN(3) - 1
		case 1:
			mag = r.IntN(1 << 31)
		default:
			mag = (1 << uint(5*(1+r.IntN(6)))) + r.IntN(3) - 1 // group boundaries of the 5-bit encoding
		}
		next := mag
		if cur > 0 && r.IntN(2) == 0 {
			next = cur - mag
		}
		if next < -(1<<31) || next > 1<<31 {
			next = mag
		}
		if r.IntN(2) == 0 {
			ops = append(ops, smOp{Op: "map", A: next, B: 0})
		} else {
			ops = append(ops, smOp{Op: "map", A: 0, B: next})
		}
		t.Distinct(fmt.Sprintf("large:%d", next-cur))
		cur = next
		ops = append(ops, smOp{Op: "col", A: r.IntN(1 << 20)})
	}
	checkSMHistory(t, ops, "vlq-large")
}

func runSMEdges(t *fw.T) {
	var ops []smOp
	switch t.Index {
	case 0: // empty history
	case 1: // only line advances
		for i := 0; i < 10; i++ {
			ops = append(ops, smOp{Op: "line"})
		}
	case 2: // runs of empty lines between segments
		ops = []smOp{{Op: "map", A: 0, B: 0}, {Op: "line"}, {Op: "line"}, {Op: "line"}, {Op: "map", A: 5, B: 5}, {Op: "str", S: "\n\n\r\n\r"}, {Op: "named", A: 2, B: 1, Name: "k"}}
	case 3: // named, unnamed, named across lines
		ops = []smOp{{Op: "named", A: 0, B: 0, Name: "a"}, {Op: "named", A: 0, B: 2, Name: "b"}, {Op: "line"}, {Op: "map", A: 1, B: 0}, {Op: "col", A: 4}, {Op: "named", A: 1, B: 4, Name: "a"}, {Op: "line"}, {Op: "named", A: 2, B: 0, Name: "c"}, {Op: "named", A: 2, B: 0, Name: "b"}}
	case 4: // several segments at one generated position
		ops = []smOp{{Op: "map", A: 1, B: 1}, {Op: "map", A: 0, B: 0}, {Op: "named", A: 9, B: 9, Name: "z"}}
	case 5: // decreasing source positions
		for i := 50; i >= 0; i-- {
			ops = append(ops, smOp{Op: "map", A: i, B: 2 * i}, smOp{Op: "col", A: 2})
		}
	case 6: // CRLF, CR, LF inside strings
		ops = []smOp{{Op: "str", S: "ab\r\ncd"}, {Op: "map", A: 1, B: 2}, {Op: "str", S: "x\ry"}, {Op: "map", A: 2, B: 1}, {Op: "str", S: "\n"}, {Op: "map", A: 3, B: 0}, {Op: "str", S: "\r\n\r\n"}, {Op: "map", A: 5, B: 0}}
	case 7: // empty names and names that repeat
		ops = []smOp{{Op: "named", A: 0, B: 0, Name: ""}, {Op: "named", A: 0, B: 1, Name: "q"}, {Op: "named", A: 0, B: 2, Name: ""}, {Op: "named", A: 0, B: 3, Name: "q"}}
	}
	checkSMHistory(t, ops, fmt.Sprintf("edge-%d", t.Index))
	t.Distinct(fmt.Sprintf("edge:%d", t.Index))
}
