package mon

import (
	"github.com/xjslang/xjs/ast"
	"github.com/xjslang/xjs/compiler"
	"github.com/xjslang/xjs/lexer"
	"github.com/xjslang/xjs/parser"
	"github.com/xjslang/xjs/token"
)

// pluginNoise is what the rest of a process does while the monitored object is used: other builders are configured with
// plugins - token types with word-like names, a postfix operator on the NOT token (the README's factorial), infix and
// prefix operators, interceptors of all kinds, other modes - and parsers built from them parse and compile small inputs.
// None of it may show in a plain lexer / parser / compiler used afterwards (instances share no mutable state): the
// monitors call it between cases and then judge their plain object as always. Violations found this way replay from the
// worker's plan prefix.
var noiseWords = []string{"pow", "defer", "typeof", "PI", "mod", "unless", "of"}

func pluginNoise(variant int) {
	defer func() { recover() }() // a panic inside the noise is not this monitor's finding
	lb := lexer.NewBuilder()
	var types []token.Type
	for i, w := range noiseWords {
		if (variant+i)%2 == 0 {
			types = append(types, lb.RegisterTokenType(w))
		}
	}
	bang := lb.RegisterTokenType("op!")
	lb.UseTokenInterceptor(func(l *lexer.Lexer, next func() token.Token) token.Token {
		if l.CurrentChar == '@' {
			tok := l.NewToken(bang, "@")
			l.ReadChar()
			return tok
		}
		return next()
	})
	pb := parser.NewBuilder(lb)
	switch variant % 4 {
	case 1:
		pb.WithTolerantMode(true)
	case 2:
		pb.WithSmartSemicolon(true)
	case 3:
		pb.WithTolerantMode(true).WithSmartSemicolon(true)
	}
	// postfix only (no infix operator registered) on every second variant
	pb.RegisterPostfixOperator(token.NOT, func(tok token.Token, left ast.Expression) ast.Expression {
		return &cPostfix{Tok: tok, Op: "!", X: left}
	})
	if variant%2 == 0 {
		pb.RegisterInfixOperator(bang, parser.PRODUCT+1, func(tok token.Token, left ast.Expression, right func() ast.Expression) ast.Expression {
			return &cInfix{Tok: tok, Op: "@", L: left, R: right(), Level: parser.PRODUCT + 1}
		})
		pb.RegisterPrefixOperator(token.MODULO, func(tok token.Token, right func() ast.Expression) ast.Expression {
			return &cPrefix{Tok: tok, Op: "%", X: right()}
		})
	}
	if variant%3 == 1 {
		// a percent sign as postfix operator, no infix operator on this builder
		pc := parser.NewBuilder(lexer.NewBuilder())
		pc.RegisterPostfixOperator(token.MODULO, func(tok token.Token, left ast.Expression) ast.Expression {
			return &cPostfix{Tok: tok, Op: "%", X: left}
		})
		pc.Build("a = 50%\nb = a * 2").ParseProgram()
	}
	pb.UseStatementInterceptor(func(p *parser.Parser, next func() ast.Statement) ast.Statement { return next() })
	pb.UseExpressionInterceptor(func(p *parser.Parser, next func() ast.Expression) ast.Expression { return next() })
	for _, src := range []string{"let a = 5!\nb = a @ 2 + %a", "function f() { return pow(2)! }\n(f)()\n[1]", "x ! y {", "\"open"} {
		p := pb.Build(src)
		prog, err := p.ParseProgram()
		if err == nil && prog != nil {
			compiler.New().WithPrettyPrint(compiler.WithSemi(variant%2 == 0)).WithSourceMap().Compile(prog)
		}
	}
}
