package mon

import (
	"fmt"
	"math/rand/v2"
	"reflect"
	"strings"

	"github.com/xjslang/xjs/ast"
	"github.com/xjslang/xjs/lexer"
	"github.com/xjslang/xjs/parser"
	"github.com/xjslang/xjs/token"

	"verif/fw"
	"verif/gen"
	"verif/norm"
)

// ---- C13: parser modes differ only where documented ------------------------

// hasLineLeadingBracket: is some '(' or '[' token the first token on its line?
func hasLineLeadingBracket(src string) bool {
	lx := lexer.NewBuilder().Build(src)
	for i := 0; i < len(src)+2; i++ {
		tk := lx.NextToken()
		if tk.Type == token.EOF {
			return false
		}
		if tk.AfterNewline && (tk.Type == token.LPAREN || tk.Type == token.LBRACKET) {
			return true
		}
	}
	return false
}

// checkModesAgree: clauses (a) and (c) on one text.
func checkModesAgree(t *fw.T, src string, label string) {
	outs := make([]ParseOut, len(AllModes))
	wit := func() map[string]any { return map[string]any{"source": src, "workload": label} }
	for i, m := range AllModes {
		m := m
		if !t.Guard("parse "+m.String(), wit, func() { outs[i] = parse(src, m) }) {
			return
		}
	}
	strict, tolerant, smart, tolSmart := outs[0], outs[1], outs[2], outs[3]
	// (a) strict accepts => tolerant identical, no errors (with and without smart)
	for _, pair := range [][2]int{{0, 1}, {2, 3}} {
		s, tl := outs[pair[0]], outs[pair[1]]
		if s.Err != nil || len(s.Errors) > 0 {
			continue
		}
		t.Count("strict_accepted_compared_with_tolerant", 1)
		if tl.Err != nil || len(tl.Errors) > 0 {
			w := wit()
			w["tolerant_errors"] = tl.Errors
			t.Violate("tolerant-rejects-strict-accepted", AllModes[pair[1]].String(), "tolerant mode reports an error on a text strict mode accepts: "+gen.Describe(src), w)
			continue
		}
		if !reflect.DeepEqual(s.Prog, tl.Prog) {
			w := wit()
			w["strict_tree"] = norm.SPlus(s.Prog)
			w["tolerant_tree"] = norm.SPlus(tl.Prog)
			t.Violate("tolerant-tree-differs", diffKey(norm.SPlus(s.Prog), norm.SPlus(tl.Prog)), "tolerant and strict trees differ on an accepted text: "+gen.Describe(src), w)
		}
	}
	// (c) no '(' / '[' first on a line => smart == default (trees and errors)
	if !hasLineLeadingBracket(src) {
		t.Count("texts_without_line_leading_bracket", 1)
		for _, pair := range [][2]int{{0, 2}, {1, 3}} {
			d, sm := outs[pair[0]], outs[pair[1]]
			if !reflect.DeepEqual(d.Errors, sm.Errors) {
				w := wit()
				w["default_errors"], w["smart_errors"] = d.Errors, sm.Errors
				t.Violate("smart-changes-errors", AllModes[pair[1]].String(), "smart-semicolon mode changes the errors of a text with no '(' or '[' at a line start: "+gen.Describe(src), w)
				continue
			}
			if !reflect.DeepEqual(d.Prog, sm.Prog) {
				w := wit()
				w["default_tree"], w["smart_tree"] = norm.SPlus(d.Prog), norm.SPlus(sm.Prog)
				t.Violate("smart-changes-tree", diffKey(norm.SPlus(d.Prog), norm.SPlus(sm.Prog)), "smart-semicolon mode changes the tree of a text with no '(' or '[' at a line start: "+gen.Describe(src), w)
			}
		}
	}
	_, _, _, _ = strict, tolerant, smart, tolSmart
}

// (b) tolerant accepts fused statements and blocks left open at end of input, keeping every complete statement
func runC13Tolerant(t *fw.T) {
	r := t.Rand()
	g := gen.NewSyn(r, gen.SynOpts{ExprDepth: 1 + r.IntN(3), StmtDepth: 1 + r.IntN(3), MaxStmts: 2 + r.IntN(4)})
	prog := g.Program()
	if r.IntN(2) == 0 && len(prog.Kids) > 0 {
		// make sure the program ends in nested blocks that can be left open
		inner := &gen.Node{K: gen.KBlock, Kids: []*gen.Node{g.Stmt(0, 2), g.Stmt(0, 2)}}
		outer := &gen.Node{K: gen.KFuncDecl, Name: "tail", Kids: []*gen.Node{g.Stmt(0, 2), {K: gen.KIf, Kids: []*gen.Node{gen.Id("c"), inner}}}}
		prog.Kids = append(prog.Kids, outer)
	}
	want := prog.S()
	lay := gen.Layout{Semi: r.Float64() * 0.5, Space: 1, StmtNL: r.Float64(), Fuse: 0.5 + r.Float64()*0.5, CutBrace: r.IntN(4)}
	rd := gen.Render(prog, r, gen.EmitOpts{Quote: 2}, lay)
	if rd.Fuses == 0 && rd.CutBraces == 0 {
		t.Count("no_tolerance_needed", 1)
	}
	t.Count("fused_separators", rd.Fuses)
	t.Count("open_blocks", rd.CutBraces)
	for _, m := range []Mode{{Tolerant: true}, {Tolerant: true, Smart: true}} {
		if m.Smart && hasLineLeadingBracket(rd.Src) {
			continue
		}
		var po ParseOut
		wit := func() map[string]any {
			return map[string]any{"source": rd.Src, "mode": m.String(), "fused": rd.Fuses, "open_blocks": rd.CutBraces, "expected_tree": want}
		}
		byHand := r.IntN(4) == 0
		if !t.Guard("tolerant parse", wit, func() {
			if byHand {
				// the statement loop driven by hand (ParseStatement / NextToken), errors read from Errors(): what tolerant
				// mode forgives does not depend on who runs the loop
				po = parseByHand(rd.Src, m)
			} else {
				po = parse(rd.Src, m)
			}
		}) {
			continue
		}
		if byHand {
			t.Count("tolerant_parses_with_the_statement_loop_driven_by_hand", 1)
		}
		if po.Err != nil || len(po.Errors) > 0 {
			w := wit()
			w["errors"] = po.Errors
			msg := ""
			if len(po.Errors) > 0 {
				msg = po.Errors[0].Message
			}
			t.Violate("tolerant-rejects-recoverable", errKey(msg), "tolerant mode reports an error on fused statements / open blocks: "+msg+": "+gen.Describe(rd.Src), w)
			continue
		}
		got := norm.S(po.Prog)
		if got != want {
			w := wit()
			w["got_tree"] = got
			t.Violate("tolerant-loses-statements", diffKey(want, got), "tolerant mode does not keep every complete statement in place: "+gen.Describe(rd.Src), w)
		}
	}
	// the same with a plugin statement: every `while` keyword is spelled `unless`, a word that a token interceptor gives
	// its own token type and a statement interceptor parses exactly like `while` (through the public API). A statement
	// that begins with a plugin's keyword is a statement like any other: fused after another one on the same line,
	// tolerant mode must accept it and keep both.
	if r.IntN(2) == 0 {
		var sb strings.Builder
		last, n := 0, 0
		for _, tk := range rd.Toks {
			if tk.Kind == gen.TKeyword && tk.Text == "while" {
				sb.WriteString(rd.Src[last:tk.Off])
				sb.WriteString("unless")
				last = tk.End
				n++
			} else if tk.Kind == gen.TIdent && tk.Text == "unless" {
				n = -1 << 20
			}
		}
		sb.WriteString(rd.Src[last:])
		if n > 0 {
			src2 := sb.String()
			t.Count("programs_with_a_plugin_statement_keyword", 1)
			for _, m := range []Mode{{Tolerant: true}, {Tolerant: true, Smart: true}} {
				if m.Smart && hasLineLeadingBracket(src2) {
					continue
				}
				var prog2 *ast.Program
				var errs []parser.ParserError
				wit := func() map[string]any {
					return map[string]any{"source": src2, "mode": m.String(), "plugin": "`unless (c) s` parsed like `while (c) s`", "fused": rd.Fuses, "open_blocks": rd.CutBraces, "expected_tree": want}
				}
				if !t.Guard("tolerant parse with a plugin statement", wit, func() {
					p := unlessBuilder(m).Build(src2)
					prog2, _ = p.ParseProgram()
					errs = p.Errors()
				}) {
					continue
				}
				if len(errs) > 0 {
					w := wit()
					w["errors"] = errs
					t.Violate("tolerant-rejects-recoverable", "plugin statement/"+errKey(errs[0].Message), "tolerant mode reports an error on fused statements / open blocks when a statement begins with a plugin keyword: "+errs[0].Message+": "+gen.Describe(src2), w)
					continue
				}
				if got := norm.S(prog2); got != want {
					w := wit()
					w["got_tree"] = got
					t.Violate("tolerant-loses-statements", "plugin statement/"+diffKey(want, got), "tolerant mode does not keep every complete statement in place (plugin statement keyword): "+gen.Describe(src2), w)
				}
			}
		}
	}
	t.Distinct(rd.Src)
	if t.WantSample() && len(rd.Src) < 200 && (rd.Fuses > 0 || rd.CutBraces > 0) {
		t.Sample(map[string]any{"stratum": "tolerant", "source": rd.Src, "fused": rd.Fuses, "open_blocks": rd.CutBraces})
	}
	if t.Index%4 == 0 {
		checkOpenFunctionExpression(t, r)
	}
}

// checkOpenFunctionExpression: the block left open at the end of the input is the body of a function EXPRESSION (the
// initialiser of the last `let`, or the right-hand side of the last assignment), possibly with open blocks inside it:
// tolerant mode accepts the text without error and keeps every statement, as it does for declarations and plain blocks.
func checkOpenFunctionExpression(t *fw.T, r *rand.Rand) {
	g := gen.NewSyn(r, gen.SynOpts{ExprDepth: 1 + r.IntN(2), StmtDepth: 1 + r.IntN(2), MaxStmts: 1 + r.IntN(3)})
	body := g.Program().Kids
	if r.IntN(2) == 0 {
		body = append(body, &gen.Node{K: gen.KIf, Kids: []*gen.Node{gen.Id("c"), {K: gen.KBlock, Kids: []*gen.Node{g.Stmt(0, 1)}}}})
	}
	fn := &gen.Node{K: gen.KFunc, Params: []string{"p"}, Kids: body}
	if r.IntN(2) == 0 {
		fn.Name = "g"
	}
	last := gen.Let("h", fn)
	if r.IntN(2) == 0 {
		last = gen.ExprStmt(gen.Asg("=", gen.Id("h"), fn))
	}
	full := gen.Prog(g.Stmt(0, 1), last)
	want := full.S()
	rd := gen.Render(full, r, gen.EmitOpts{}, gen.Layout{Semi: 0, Space: 1, StmtNL: 1, NoTrailingNL: true})
	// the closing braces at the very end of the text that close the function body or a block inside it (by the renderer's
	// token table - not the brace of an object literal)
	src, cut := rd.Src, 0
	for i := len(rd.Toks) - 1; i >= 0 && cut < 2; i-- {
		tk := rd.Toks[i]
		if tk.Text != "}" || tk.Node == nil || (tk.Node.K != gen.KFunc && tk.Node.K != gen.KBlock) {
			break
		}
		if cut > 0 && r.IntN(2) == 0 {
			break
		}
		src = strings.TrimRight(rd.Src[:tk.Off], " \t\r\n")
		cut++
	}
	if cut == 0 {
		return
	}
	for _, m := range []Mode{{Tolerant: true}, {Tolerant: true, Smart: true}} {
		if m.Smart && hasLineLeadingBracket(src) {
			continue
		}
		wit := func() map[string]any {
			return map[string]any{"source": src, "mode": m.String(), "closing_braces_cut": cut, "expected_tree": want}
		}
		var po ParseOut
		if !t.Guard("tolerant parse of an open function expression", wit, func() { po = parse(src, m) }) {
			continue
		}
		t.Count("open_function_expression_bodies", 1)
		if len(po.Errors) > 0 {
			w := wit()
			w["errors"] = po.Errors
			t.Violate("tolerant-rejects-recoverable", "open function expression/"+errKey(po.Errors[0].Message), "tolerant mode reports an error when the block left open at end of input is the body of a function expression: "+po.Errors[0].Message+": "+gen.Describe(src), w)
			continue
		}
		if got := norm.S(po.Prog); got != want {
			w := wit()
			w["got_tree"] = got
			t.Violate("tolerant-loses-statements", "open function expression/"+diffKey(want, got), "tolerant mode does not keep every statement when the block left open at end of input is the body of a function expression: "+gen.Describe(src), w)
		}
	}
}

// unlessBuilder: a builder with a plugin statement `unless (cond) stmt`, parsed into the same node as `while (cond) stmt`.
func unlessBuilder(m Mode) *parser.Builder {
	lb := lexer.NewBuilder()
	u := lb.RegisterTokenType("unless")
	lb.UseTokenInterceptor(func(l *lexer.Lexer, next func() token.Token) token.Token {
		tok := next()
		if tok.Type == token.IDENT && tok.Literal == "unless" {
			tok.Type = u
		}
		return tok
	})
	pb := parser.NewBuilder(lb)
	if m.Tolerant {
		pb.WithTolerantMode(true)
	}
	if m.Smart {
		pb.WithSmartSemicolon(true)
	}
	pb.UseStatementInterceptor(func(p *parser.Parser, next func() ast.Statement) ast.Statement {
		if p.CurrentToken.Type != u {
			return next()
		}
		st := &ast.WhileStatement{Token: p.CurrentToken}
		if !p.ExpectToken(token.LPAREN) {
			return nil
		}
		p.NextToken()
		st.Condition = p.ParseExpression()
		if !p.ExpectToken(token.RPAREN) {
			return nil
		}
		p.NextToken()
		st.Body = p.ParseStatement()
		return st
	})
	return pb
}

// (d) statements separated by line breaks only, some beginning with '(' or '[': smart mode reads them as statements
func runC13Smart(t *fw.T) { runC13SmartSized(t, false) }

// runC13SmartLong: scripts of 150 to 650 top-level statements, every second one followed by a statement that begins
// with ( or [ on its own line: what smart mode does at the n-th such line is what it does at the first.
func runC13SmartLong(t *fw.T) { runC13SmartSized(t, true) }

func runC13SmartSized(t *fw.T, long bool) {
	r := t.Rand()
	g := gen.NewSyn(r, gen.SynOpts{ExprDepth: 1 + r.IntN(3), StmtDepth: 1 + r.IntN(3), MaxStmts: 2 + r.IntN(4)})
	prog := g.Program()
	if long {
		g = gen.NewSyn(r, gen.SynOpts{ExprDepth: 1 + r.IntN(2), StmtDepth: 1, MaxStmts: 2, MaxNodes: 40000})
		prog = &gen.Node{K: gen.KProgram}
		for i, n := 0, 150+r.IntN(500); i < n; i++ {
			prog.Kids = append(prog.Kids, g.Stmt(r.IntN(2), 1+r.IntN(2)))
		}
	}
	// sprinkle statements that begin with ( or [
	var add func(list []*gen.Node) []*gen.Node
	add = func(list []*gen.Node) []*gen.Node {
		var out []*gen.Node
		for _, s := range list {
			out = append(out, s)
			if r.IntN(2) == 0 {
				var e *gen.Node
				switch r.IntN(4) {
				case 0:
					e = gen.Call(&gen.Node{K: gen.KFunc, Kids: []*gen.Node{gen.ExprStmt(gen.Id("q"))}})
				case 1:
					e = gen.Dot(&gen.Node{K: gen.KArr, Kids: []*gen.Node{gen.Num("1"), gen.Id("b")}}, "len")
				case 2:
					e = gen.Bin("*", gen.Bin("+", gen.Id("a"), gen.Id("b")), gen.Id("c"))
				default:
					e = gen.Call(gen.Dot(&gen.Node{K: gen.KArr, Kids: []*gen.Node{g.Expr(1)}}, "p"), g.Expr(1))
				}
				out = append(out, gen.ExprStmt(e))
			}
		}
		return out
	}
	prog.Kids = add(prog.Kids)
	prog.Walk(func(n *gen.Node) {
		if n.K == gen.KBlock || n.K == gen.KFuncDecl || n.K == gen.KFunc {
			n.Kids = add(n.Kids)
		}
	})
	want := prog.S()
	// half of the texts carry trailing and own-line `//` comments and blank lines: the line break that ends a comment
	// is a line break like any other
	lay := gen.Layout{Semi: 0, Space: 1, StmtNL: 1, Smart: true}
	if r.IntN(2) == 0 {
		lay.Comment, lay.Blank = 0.35, 0.15
		t.Count("smart_texts_with_comments", 1)
	}
	rd := gen.Render(prog, r, gen.EmitOpts{Quote: 2}, lay)
	t.Count("smart_cuts", rd.SmartCuts)
	if long {
		t.Feature("line-leading brackets per long script (x50)", fmt.Sprint(rd.SmartCuts/50*50))
	}
	// sanity of the case: with ';' inserted the text is the tree for the reference parser and for default mode
	semi := rd.WithSemis()
	ac, ok := acornTrees(t, []string{semi}, false)
	if !ok {
		return
	}
	if ac[0].Err != "" || ac[0].S != want {
		t.Count("oracle_selfcheck_failures", 1)
		t.Inconclusive("oracle self-check: reference parser does not read the ';'-separated text as the generated tree", gen.Describe(semi)+" => "+ac[0].Err)
		return
	}
	wit := func() map[string]any {
		return map[string]any{"source": rd.Src, "with_semicolons": semi, "expected_tree": want, "line_leading_brackets": rd.SmartCuts}
	}
	for _, m := range []Mode{{Smart: true}, {Smart: true, Tolerant: true}} {
		var po ParseOut
		if !t.Guard("smart parse", wit, func() { po = parse(rd.Src, m) }) {
			continue
		}
		if po.Err != nil || len(po.Errors) > 0 {
			w := wit()
			w["errors"] = po.Errors
			msg := ""
			if len(po.Errors) > 0 {
				msg = po.Errors[0].Message
			}
			t.Violate("smart-rejects", m.String()+"/"+errKey(msg), "smart-semicolon mode rejects line-separated statements: "+msg+": "+gen.Describe(rd.Src), w)
			continue
		}
		if got := norm.S(po.Prog); got != want {
			w := wit()
			w["got_tree"] = got
			t.Violate("smart-tree", m.String()+"/"+diffKey(want, got), "smart-semicolon mode does not start a new statement at a line-leading '(' / '[' exactly as if ';' preceded it: "+gen.Describe(rd.Src), w)
		}
	}
	// the same through the path plugins use: an expression interceptor that parses the prefix itself and lets the
	// parser continue (ParseRemainingExpression). The smart cut belongs to the expression, not to who parses it.
	if r.IntN(2) == 0 {
		m := Mode{Smart: true}
		coin := rand.New(rand.NewPCG(r.Uint64(), 13))
		var prog2 *ast.Program
		var errs []parser.ParserError
		if t.Guard("smart parse with a re-entrant expression interceptor", wit, func() {
			pb := newBuilder(m)
			pb.UseExpressionInterceptor(func(p *parser.Parser, next func() ast.Expression) ast.Expression {
				if coin.IntN(2) == 0 {
					return p.ParseRemainingExpression(dispatchPrefix(p))
				}
				return next()
			})
			p := pb.Build(rd.Src)
			prog2, _ = p.ParseProgram()
			errs = p.Errors()
		}) {
			t.Count("smart_parses_through_a_reentrant_interceptor", 1)
			if len(errs) > 0 {
				w := wit()
				w["errors"] = errs
				t.Violate("smart-rejects", "re-entrant interceptor/"+errKey(errs[0].Message), "smart-semicolon mode rejects line-separated statements when an expression interceptor continues the expression itself: "+errs[0].Message+": "+gen.Describe(rd.Src), w)
			} else if got := norm.S(prog2); got != want {
				w := wit()
				w["got_tree"] = got
				t.Violate("smart-tree", "re-entrant interceptor/"+diffKey(want, got), "with an expression interceptor that continues the expression itself, smart-semicolon mode does not start a new statement at a line-leading '(' / '[': "+gen.Describe(rd.Src), w)
			}
		}
	}
	// default mode on the ';' text
	var po ParseOut
	if t.Guard("default parse", wit, func() { po = parse(semi, Mode{}) }) {
		if po.Err != nil || norm.S(po.Prog) != want {
			t.Inconclusive("default mode does not read the ';'-separated text as the tree (C02's business)", gen.Describe(semi))
		}
	}
	t.Distinct(rd.Src)
	if t.WantSample() && len(rd.Src) < 200 && rd.SmartCuts > 0 {
		t.Sample(map[string]any{"stratum": "smart", "source": rd.Src, "line_leading_brackets": rd.SmartCuts})
	}
}

// builder options are copied into each parser: a parser built earlier keeps its modes when the builder is
// reconfigured afterwards (build -> reconfigure -> build -> parse, in any order)
func runC13Reconfigure(t *fw.T) {
	r := t.Rand()
	var src string
	switch r.IntN(3) {
	case 0:
		g := gen.NewSyn(r, gen.SynOpts{ExprDepth: 2, StmtDepth: 2, MaxStmts: 4})
		rd := gen.Render(g.Program(), r, gen.EmitOpts{}, gen.Layout{Semi: 0.3, Space: 1, StmtNL: 0.6, Fuse: 0.7, CutBrace: r.IntN(3)})
		src = rd.Src
	case 1:
		g := gen.NewSyn(r, gen.SynOpts{ExprDepth: 2, StmtDepth: 2, MaxStmts: 4})
		p := g.Program()
		p.Kids = append(p.Kids, gen.ExprStmt(gen.Bin("*", gen.Bin("+", gen.Id("a"), gen.Id("b")), gen.Id("c"))), gen.ExprStmt(gen.Dot(&gen.Node{K: gen.KArr, Kids: []*gen.Node{gen.Num("1")}}, "len")))
		src = gen.Render(p, r, gen.EmitOpts{}, gen.Layout{Semi: 0, Space: 1, StmtNL: 1, Smart: true}).Src
	default:
		_, rd := randProgram(r)
		src = mutate(r, rd)
	}
	n := 2 + r.IntN(3)
	modes := make([]Mode, n)
	for i := range modes {
		modes[i] = AllModes[r.IntN(4)]
	}
	wit := func() map[string]any { return map[string]any{"source": src, "modes_in_build_order": fmt.Sprint(modes)} }
	var built []*parser.Parser
	ok := t.Guard("build", wit, func() {
		pb := parser.NewBuilder(lexer.NewBuilder())
		cur := Mode{}
		for _, m := range modes {
			// reconfigure the way users do: only the option that changes (in either order when both change), or both
			// setters regardless
			switch x := r.IntN(4); {
			case x == 0:
				pb.WithTolerantMode(m.Tolerant).WithSmartSemicolon(m.Smart)
			case x == 1:
				pb.WithSmartSemicolon(m.Smart).WithTolerantMode(m.Tolerant)
			default:
				first := r.IntN(2) == 0
				if first && m.Tolerant != cur.Tolerant {
					pb.WithTolerantMode(m.Tolerant)
				}
				if m.Smart != cur.Smart {
					pb.WithSmartSemicolon(m.Smart)
				}
				if !first && m.Tolerant != cur.Tolerant {
					pb.WithTolerantMode(m.Tolerant)
				}
			}
			cur = m
			if r.IntN(3) == 0 {
				// a plugin installed after the modes were chosen (a no-op one, or one that adds a pass-through interceptor):
				// installing plugins and choosing modes are independent, in either order
				if r.IntN(2) == 0 {
					pb.Install(func(b *parser.Builder) {})
				} else {
					pb.Install(func(b *parser.Builder) {
						b.UseExpressionInterceptor(func(p *parser.Parser, next func() ast.Expression) ast.Expression { return next() })
					})
				}
			}
			built = append(built, pb.Build(src))
		}
	})
	if !ok {
		return
	}
	order := r.Perm(n)
	for _, i := range order {
		var got, want ParseOut
		if !t.Guard("parse", wit, func() {
			prog, err := built[i].ParseProgram()
			got = ParseOut{Prog: prog, Err: err, Errors: built[i].Errors()}
			want = parse(src, modes[i])
		}) {
			return
		}
		t.Count("parsers_built_before_reconfiguration", 1)
		if !reflect.DeepEqual(got.Errors, want.Errors) || !reflect.DeepEqual(got.Prog, want.Prog) {
			w := wit()
			w["parser_number"] = i + 1
			w["its_mode"] = modes[i].String()
			t.Violate("reconfigured-builder-changes-built-parser", "mode flags", fmt.Sprintf("parser #%d was built in mode %s; after the builder was reconfigured (%v) it no longer parses like a fresh %s parser: %s", i+1, modes[i], modes, modes[i], gen.Describe(src)), w)
			return
		}
	}
	t.Distinct(src + fmt.Sprint(modes))
}

// strict vs tolerant under a plugin that strips statements: a statement interceptor parses marker statements
// (`drop_me`) and returns nil for them (the statement loops drop nil results). Programs that strict mode accepts with
// this plugin must give the identical tree and no errors in tolerant mode - also when more statements follow the
// stripped one on the same line.
func runC13Stripping(t *fw.T) {
	r := t.Rand()
	g := gen.NewSyn(r, gen.SynOpts{ExprDepth: 1 + r.IntN(3), StmtDepth: 1 + r.IntN(3), MaxStmts: 2 + r.IntN(4)})
	prog := g.Program()
	sprinkleDropMarkers(prog, r)
	rd := gen.Render(prog, r, gen.EmitOpts{Quote: 2}, gen.Layout{Semi: 1, Space: 1, StmtNL: r.Float64()})
	var outs [4]ParseOut
	wit := func() map[string]any {
		return map[string]any{"source": rd.Src, "plugin": "statement interceptor returns nil for `drop_me` statements"}
	}
	if !t.Guard("parse with a stripping plugin", wit, func() {
		for i, m := range AllModes {
			b := newBuilder(m)
			b.UseStatementInterceptor(func(p *parser.Parser, next func() ast.Statement) ast.Statement {
				if p.CurrentToken.Type == token.IDENT && p.CurrentToken.Literal == dropMarker {
					next()
					return nil
				}
				return next()
			})
			p := b.Build(rd.Src)
			prog, err := p.ParseProgram()
			outs[i] = ParseOut{Prog: prog, Err: err, Errors: p.Errors()}
		}
	}) {
		return
	}
	if outs[0].Err != nil {
		t.Inconclusive("source not accepted in strict mode (C02's business)", rd.Src)
		return
	}
	t.Count("programs_parsed_with_a_statement_stripping_plugin", 1)
	for i, m := range AllModes[1:] {
		if m.Smart && hasLineLeadingBracket(rd.Src) {
			continue
		}
		o := outs[i+1]
		if o.Err != nil || len(o.Errors) > 0 {
			w := wit()
			w["errors"] = o.Errors
			t.Violate("tolerant-rejects-strict-accepted", m.String()+"/stripping plugin", m.String()+" mode reports an error on a text strict mode accepts (with a plugin that strips statements): "+gen.Describe(rd.Src), w)
			continue
		}
		if !reflect.DeepEqual(outs[0].Prog, o.Prog) {
			w := wit()
			w["strict_tree"], w["other_tree"] = norm.S(outs[0].Prog), norm.S(o.Prog)
			t.Violate("modes-differ-on-accepted-program", m.String()+"/stripping plugin", m.String()+" mode returns a different tree than strict mode on a text strict mode accepts (with a plugin that strips statements): "+gen.Describe(rd.Src), w)
		}
	}
	t.Distinct(rd.Src)
}

// smart mode and registered operators: a registered infix / postfix operator first on a line is not '(' or '[' and must
// continue the expression in smart mode exactly as in default mode - whatever id its token type was given. One case =
// one id: k dummy token types are registered before the operator's, so its id is 1000+k.
func runC13SmartOperatorIds(t *fw.T) {
	k := t.Index
	for _, role := range []string{"infix", "postfix"} {
		src := "a\n@ b\nc"
		if role == "postfix" {
			src = "a\n@\nc = d\n@"
		}
		var outs [2]ParseOut
		var id token.Type
		wit := func() map[string]any {
			return map[string]any{"source": src, "operator_role": role, "token_type_id": int(id), "token_types_registered_before": k}
		}
		ok := t.Guard("parse with a registered operator", wit, func() {
			for mi, m := range []Mode{{}, {Smart: true}} {
				lb := lexer.NewBuilder()
				for i := 0; i < k; i++ {
					lb.RegisterTokenType(fmt.Sprintf("dummy%d", i))
				}
				id = lb.RegisterTokenType("op@")
				lb.UseTokenInterceptor(func(l *lexer.Lexer, next func() token.Token) token.Token {
					if l.CurrentChar == '@' {
						tok := l.NewToken(id, "@")
						l.ReadChar()
						return tok
					}
					return next()
				})
				pb := parser.NewBuilder(lb).WithSmartSemicolon(m.Smart)
				if role == "infix" {
					pb.RegisterInfixOperator(id, parser.SUM, func(tok token.Token, left ast.Expression, right func() ast.Expression) ast.Expression {
						return &cInfix{Tok: tok, Op: "@", L: left, R: right(), Level: parser.SUM}
					})
				} else {
					pb.RegisterPostfixOperator(id, func(tok token.Token, left ast.Expression) ast.Expression {
						return &cPostfix{Tok: tok, Op: "@", X: left}
					})
				}
				p := pb.Build(src)
				prog, err := p.ParseProgram()
				outs[mi] = ParseOut{Prog: prog, Err: err, Errors: p.Errors()}
			}
		})
		if !ok {
			continue
		}
		t.Count("registered_operator_ids_checked", 1)
		if !reflect.DeepEqual(outs[0].Errors, outs[1].Errors) || !reflect.DeepEqual(outs[0].Prog, outs[1].Prog) {
			t.Violate("smart-changes-tree", "registered "+role+" operator first on a line", fmt.Sprintf("a registered %s operator (token type id %d) first on a line is read differently in smart-semicolon mode than in default mode, although it is neither '(' nor '[': %q", role, int(id), src), wit())
		}
	}
	t.Distinct(fmt.Sprint("id", k))
}

func init() {
	fw.Register(&fw.Property{
		ID: "C13", Level: "exploration",
		Rule: "differential between the four mode combinations of the real parser: (a) strict-accepted => tolerant tree reflect.DeepEqual and no errors; (b) generated trees rendered with fused statements / cut closing braces => tolerant accepts and keeps every statement (S-expression equal to the generated tree); (c) no '(' / '[' first on a line => smart == default (trees and error lists DeepEqual), also on malformed inputs; (d) line-separated statements beginning with '(' / '[' => smart mode yields the generated tree (the ';'-separated variant is confirmed by acorn); (f) a builder reconfigured after Build: parsers built earlier still parse like fresh parsers of their own mode. distinct = distinct source texts.",
		Assumptions: []string{
			"(e) '(' / '[' first on a line inside an expression (multi-line call arguments) is only run for totality, not judged: the statement speaks of statements",
			"fused pairs are only those whose second statement cannot continue the first",
		},
		Teardown: closeEngine,
		Strata: []*fw.Stratum{
			{Name: "modes-agree/valid", Quick: 30000, Thorough: 150000, Run: func(t *fw.T) {
				r := t.Rand()
				_, rd := randProgram(r)
				checkModesAgree(t, rd.Src, "valid")
				t.Distinct(rd.Src)
			}},
			{Name: "modes-agree/malformed", Quick: 100000, Thorough: 800000, PanicInconclusive: true, Run: func(t *fw.T) {
				r := t.Rand()
				var src string
				if r.IntN(2) == 0 {
					_, rd := randProgram(r)
					src = mutate(r, rd)
				} else {
					src = genSoup(r, 1+r.IntN(14))
				}
				checkModesAgree(t, src, "malformed")
				t.Distinct(src)
			}},
			{Name: "tolerant", Quick: 40000, Thorough: 200000, Run: runC13Tolerant},
			{Name: "smart", Quick: 40000, Thorough: 200000, Run: runC13Smart},
			{Name: "smart/long-scripts", Quick: 320, Thorough: 2400, Run: runC13SmartLong},
			{Name: "modes-agree/stripping-plugin", Quick: 12000, Thorough: 60000, Run: runC13Stripping},
			{Name: "smart/registered-operator-ids", Quick: 600, Thorough: 600, Exhaustive: true, Run: runC13SmartOperatorIds},
			{Name: "builder-reconfigured-after-build", Quick: 24000, Thorough: 100000, PanicInconclusive: true, Run: runC13Reconfigure},
			{Name: "smart-inside-expression-observed", Quick: 300, Thorough: 3000, PanicInconclusive: true, Run: func(t *fw.T) {
				r := t.Rand()
				g := gen.NewSyn(r, gen.SynOpts{ExprDepth: 3, StmtDepth: 1, MaxStmts: 3})
				rd := gen.Render(g.Program(), r, gen.EmitOpts{}, gen.Layout{Semi: 1, Space: 1, NL: 0.6, StmtNL: 1})
				for _, m := range AllModes {
					t.Guard("parse", nil, func() {
						po := parse(rd.Src, m)
						if po.Err != nil {
							t.Count("observed_errors_"+m.String(), 1)
						}
					})
				}
				t.Distinct(rd.Src)
			}},
		},
	})
}

var _ = fmt.Sprint
