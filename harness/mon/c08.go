package mon

import (
	"fmt"
	"github.com/xjslang/xjs/ast"
	"github.com/xjslang/xjs/lexer"
	"github.com/xjslang/xjs/parser"
	"math/rand/v2"
	"sort"
	"strings"
	"verif/jsstr"

	"github.com/xjslang/xjs/compiler"

	"verif/fw"
	"verif/gen"
	"verif/reflex"
	"verif/smdecode"
)

// ---- C08: source map segments link identical lexemes -----------------------

type pos2 struct{ line, col int }

func lexemeKey(kind reflex.Kind, text string) string {
	if kind == reflex.Str && len(text) >= 2 {
		return "str:" + jsstr.Meaning(text[1:len(text)-1]) // quote style and escape spelling aside: the same value
	}
	if kind == reflex.Num {
		return "num:" + jsstr.NumMeaning(text)
	}
	if kind == reflex.Tpl && len(text) >= 2 {
		return "tpl:" + jsstr.TplMeaning(text[1:len(text)-1])
	}
	return text
}

func genTokKey(t *gen.Tok) string {
	if t.Kind == gen.TStr && len(t.Text) >= 2 {
		return "str:" + jsstr.Meaning(t.Text[1:len(t.Text)-1])
	}
	if t.Kind == gen.TNum {
		return "num:" + jsstr.NumMeaning(t.Text)
	}
	if t.Kind == gen.TTpl && len(t.Text) >= 2 {
		return "tpl:" + jsstr.TplMeaning(t.Text[1:len(t.Text)-1])
	}
	return t.Text
}

// smPositions returns offset -> (line, column) of code under the Source Map convention: LF, CR LF, lone CR end a line.
func smPositions(code string) func(off int) pos2 {
	starts := []int{0}
	for i := 0; i < len(code); i++ {
		switch code[i] {
		case '\n':
			starts = append(starts, i+1)
		case '\r':
			if i+1 < len(code) && code[i+1] == '\n' {
				i++
			}
			starts = append(starts, i+1)
		}
	}
	return func(off int) pos2 {
		l := sort.SearchInts(starts, off+1) - 1
		return pos2{l, off - starts[l]}
	}
}

// checkSourceMap verifies one compile result against the ground truth of the source.
func checkSourceMap(t *fw.T, rd *gen.Rendered, c Cfg, res compiler.CompileResult, codeNoMap string) {
	wit := func() map[string]any {
		w := map[string]any{"source": rd.Src, "config": c.String(), "generated": res.Code}
		if res.SourceMap != nil {
			w["mappings"] = clip(res.SourceMap.Mappings, 600)
			w["names"] = clipList(res.SourceMap.Names)
		}
		return w
	}
	key := "compact"
	if c.Pretty {
		key = "pretty"
	}
	if res.Code != codeNoMap {
		t.Violate("map-changes-code", key, "requesting a source map changes the generated code: "+firstDiff(codeNoMap, res.Code), wit())
		return
	}
	sm := res.SourceMap
	if sm == nil {
		t.Violate("no-map", key, "source map requested but none returned", wit())
		return
	}
	if sm.Version != 3 {
		t.Violate("version", key, fmt.Sprintf("version %d", sm.Version), wit())
		return
	}
	segs, err := smdecode.Decode(sm.Mappings)
	if err != nil {
		t.Violate("undecodable", key, "mappings do not decode: "+err.Error(), wit())
		return
	}
	t.Count("segments_checked", len(segs))
	// ground truth: source tokens by position (and their index in the ';'-free sequence)
	srcAt := map[pos2]int{}
	srcSemi := map[pos2]bool{} // ';' tokens: legitimate mapping targets, but not part of the occurrence sequence
	var srcSeq []*gen.Tok
	for i := range rd.Toks {
		tk := &rd.Toks[i]
		if tk.Kind == gen.TPunct && tk.Text == ";" {
			srcSemi[pos2{tk.Line, tk.Col}] = true
			continue
		}
		srcAt[pos2{tk.Line, tk.Col}] = len(srcSeq)
		srcSeq = append(srcSeq, tk)
	}
	items := reflex.Tokens(reflex.Scan(res.Code))
	genAt := map[pos2]int{}
	genSemi := map[pos2]bool{}
	var genSeq []reflex.Item
	// generated positions follow the Source Map line convention that C09 fixes for the builder (LF, CR LF and a lone CR
	// are one line break each: a lone CR inside an emitted backtick string starts a new generated line); source
	// positions are the lexer's (line break = LF)
	gpos := smPositions(res.Code)
	for _, it := range items {
		if it.Kind == reflex.Punct && it.Text == ";" {
			genSemi[gpos(it.Off)] = true
			continue
		}
		genAt[gpos(it.Off)] = len(genSeq)
		genSeq = append(genSeq, it)
	}
	orderPreserved := len(genSeq) == len(srcSeq)
	if orderPreserved {
		for i := range genSeq {
			if lexemeKey(genSeq[i].Kind, genSeq[i].Text) != genTokKey(srcSeq[i]) {
				orderPreserved = false
				break
			}
		}
	}
	if !orderPreserved {
		t.Count("outputs_not_token_order_preserving", 1)
	}
	named := map[int]string{} // generated token index -> name carried by a segment there
	prev := pos2{-1, -1}
	for i, s := range segs {
		if s.Fields != 4 && s.Fields != 5 {
			t.Violate("segment-fields", key, fmt.Sprintf("segment %d has %d fields", i, s.Fields), wit())
			return
		}
		if s.Src != 0 {
			t.Violate("source-index", key, fmt.Sprintf("segment %d has source index %d", i, s.Src), wit())
			return
		}
		gp := pos2{s.GenLine, s.GenCol}
		if gp.line < prev.line || (gp.line == prev.line && gp.col < prev.col) {
			t.Violate("segment-order", key, fmt.Sprintf("segment %d at generated %d:%d comes after %d:%d", i, gp.line, gp.col, prev.line, prev.col), wit())
			return
		}
		prev = gp
		if genSemi[gp] {
			// a segment on a ';' is fine as long as it points at a ';' of the source
			if !srcSemi[pos2{s.SrcLine, s.SrcCol}] {
				t.Violate("different-lexeme", key+"/operator ;", fmt.Sprintf("segment %d links a generated ';' at %d:%d with source %d:%d, which is not a ';'", i, gp.line, gp.col, s.SrcLine, s.SrcCol), wit())
				return
			}
			continue
		}
		gi, okG := genAt[gp]
		if !okG {
			w := wit()
			w["segment"] = s
			t.Violate("generated-position-not-a-token-start", key, fmt.Sprintf("segment %d points at generated %d:%d, which is not the start of a token of the generated code", i, gp.line, gp.col), w)
			return
		}
		si, okS := srcAt[pos2{s.SrcLine, s.SrcCol}]
		if !okS {
			w := wit()
			w["segment"] = s
			t.Violate("source-position-not-a-token-start", key+"/"+classOfItem(genSeq[gi]), fmt.Sprintf("segment %d (generated token %q) points at source %d:%d, which is not the start of a token of the source", i, genSeq[gi].Text, s.SrcLine, s.SrcCol), w)
			return
		}
		if lexemeKey(genSeq[gi].Kind, genSeq[gi].Text) != genTokKey(srcSeq[si]) {
			w := wit()
			w["segment"] = s
			t.Violate("different-lexeme", key+"/"+classOfItem(genSeq[gi]), fmt.Sprintf("segment %d links generated token %q at %d:%d with source token %q at %d:%d", i, genSeq[gi].Text, gp.line, gp.col, srcSeq[si].Text, s.SrcLine, s.SrcCol), w)
			return
		}
		if orderPreserved && gi != si {
			w := wit()
			w["segment"] = s
			t.Violate("different-occurrence", key+"/"+classOfItem(genSeq[gi]), fmt.Sprintf("segment %d links generated token #%d %q with source token #%d (another occurrence of the same text)", i, gi, genSeq[gi].Text, si), w)
			return
		}
		if s.Fields == 5 {
			if s.Name < 0 || s.Name >= len(sm.Names) {
				t.Violate("name-index", key, fmt.Sprintf("segment %d has name index %d of %d names", i, s.Name, len(sm.Names)), wit())
				return
			}
			named[gi] = sm.Names[s.Name]
		}
	}
	for gi, it := range genSeq {
		if it.Kind != reflex.Ident {
			continue
		}
		t.Count("identifier_occurrences_checked", 1)
		nm, ok := named[gi]
		if !ok {
			t.Violate("identifier-without-named-segment", key, fmt.Sprintf("identifier %q at generated %d:%d has no segment carrying its name", it.Text, it.Line, it.Col), wit())
			return
		}
		if nm != it.Text {
			t.Violate("identifier-wrong-name", key, fmt.Sprintf("identifier %q at generated %d:%d is covered by a segment named %q", it.Text, it.Line, it.Col, nm), wit())
			return
		}
	}
}

func classOfItem(it reflex.Item) string {
	switch it.Kind {
	case reflex.Ident:
		return "identifier"
	case reflex.Keyword:
		return "keyword " + it.Text
	case reflex.Num:
		return "number"
	case reflex.Str:
		return "string"
	case reflex.Tpl:
		return "backtick string"
	}
	return "operator " + it.Text
}

func runC08(t *fw.T) {
	r := t.Rand()
	o := gen.SynOpts{ExprDepth: 2 + r.IntN(4), StmtDepth: 1 + r.IntN(3), MaxStmts: 1 + r.IntN(5), NumDot: r.IntN(4) == 0}
	checkC08Prog(t, r, gen.NewSyn(r, o).Program())
}

func checkC08Prog(t *fw.T, r *rand.Rand, prog *gen.Node) {
	l := stdLayouts[r.IntN(len(stdLayouts))]
	if r.IntN(3) == 0 {
		l = randomLayout(r)
	}
	rd := gen.Render(prog, r, l.E, l.L)
	// a quarter of the sources gets block-comment lines that a lexer plugin skips (it consumes them through the public
	// Lexer.ReadChar before handing over to next()): the tokens behind them are where they are
	plugin := false
	if r.IntN(4) == 0 {
		if rd2 := withBlockCommentLines(rd, r); rd2 != nil {
			rd, plugin = rd2, true
			t.Count("sources_with_block_comments_skipped_by_a_lexer_plugin", 1)
		}
	}
	var po ParseOut
	if !t.Guard("parse", func() map[string]any { return map[string]any{"source": rd.Src} }, func() {
		if plugin {
			lb := lexer.NewBuilder()
			useBlockCommentPlugin(lb)
			p := parser.NewBuilder(lb).Build(rd.Src)
			prog, err := p.ParseProgram()
			po = ParseOut{Prog: prog, Err: err, Errors: p.Errors()}
			return
		}
		po = parse(rd.Src, Mode{})
	}) {
		return
	}
	if po.Err != nil {
		t.Inconclusive("source not accepted (C02's business)", rd.Src)
		return
	}
	// a sixth of the trees goes through a transformation pass first: every explicit grouping node is removed, so the
	// printers insert the parentheses that are needed themselves. Whatever segments the map then has still link equal
	// lexemes (parentheses the printer adds have no source position of their own).
	if !plugin && r.IntN(6) == 0 {
		var k int
		if t.Guard("strip grouping nodes", nil, func() { k = stripGroups(po.Prog) }) && k > 0 {
			t.Count("trees_with_grouping_nodes_removed_before_compiling", 1)
		}
	}
	all := prettyCfgs()
	cfgs := []Cfg{{}, CfgPretty, all[r.IntN(20)], all[r.IntN(20)]}
	if t.Thorough() && !limitCfgs {
		cfgs = append([]Cfg{{}}, all...)
	}
	// all maps are produced first and read afterwards - after the later compilations of this case and after two
	// compilations of an unrelated program with other names: a result that has been handed out is the caller's
	type produced struct {
		cm    Cfg
		res   compiler.CompileResult
		plain string
	}
	var outs []produced
	for _, c := range cfgs {
		cm := c
		cm.Map = true
		var res compiler.CompileResult
		var plain string
		if !t.Guard("compile with source map", func() map[string]any { return map[string]any{"source": rd.Src, "config": cm.String()} }, func() {
			if t.Index%2 == 0 {
				res = cm.Compile(po.Prog)
			} else {
				// the map of a Compiler's second compilation is held to the same standard as that of its first
				k := cm.compiler()
				k.Compile(po.Prog)
				res = k.Compile(po.Prog)
			}
			plain = c.Compile(po.Prog).Code
		}) {
			continue
		}
		outs = append(outs, produced{cm, res, plain})
	}
	t.Guard("compile an unrelated program", nil, func() {
		if otherProgram == nil {
			otherProgram = parse("let zeta = [omega1, omega2]\nfunction kappa(lambda) { return lambda + zeta }\nkappa(`t\n`)", Mode{}).Prog
		}
		Cfg{Map: true}.Compile(otherProgram)
		Cfg{Pretty: true, Tabs: true, NoSemi: true, Map: true}.Compile(otherProgram)
	})
	for _, o := range outs {
		checkSourceMap(t, rd, o.cm, o.res, o.plain)
		t.Count("maps_checked", 1)
		t.Count("maps_read_after_later_compilations", 1)
		t.Feature("configs", o.cm.String())
	}
	t.Distinct(rd.Src)
	if strings.Contains(rd.Src, "\n") {
		t.Count("multi_line_sources", 1)
	}
	if t.WantSample() && len(rd.Src) < 120 {
		res := Cfg{Map: true}.Compile(po.Prog)
		t.Sample(map[string]any{"stratum": "programs", "source": rd.Src, "compact": res.Code, "mappings": res.SourceMap.Mappings, "names": res.SourceMap.Names})
	}
}

var otherProgram *ast.Program

func init() {
	fw.Register(&fw.Property{
		ID: "C08", Level: "exploration",
		Rule: "programs (G-syn trees in all layouts: multi-line, indented, commented, two-character operators, multi-line literals) are compiled with a source map, compact and pretty; the map is decoded by the independent decoder; every segment must sit on the start of a token of the generated code (reference tokenizer) and point at the start of the same lexeme in the source (renderer token table; same occurrence, by index in the ';'-free token sequences), generated positions non-decreasing, every identifier occurrence covered by a segment carrying its name, code identical to the compile without map. distinct = distinct sources.",
		Assumptions: []string{
			"programs are ASCII outside string literals and comments, so byte, code-point and UTF-16 columns coincide for every mapped token start on lines without earlier non-ASCII text; non-ASCII text is not generated in this workload (the property does not fix the column unit)",
			"strings are compared by content, quote style aside; G-syn strings contain no escapes (C07 owns escapes)",
		},
		Strata: []*fw.Stratum{
			{Name: "programs", Quick: 60000, Thorough: 300000, Run: runC08},
		},
	})
}
