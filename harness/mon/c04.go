package mon

import (
	"fmt"
	"math/rand/v2"
	"reflect"
	"strings"

	"github.com/xjslang/xjs/ast"
	"github.com/xjslang/xjs/lexer"
	"github.com/xjslang/xjs/parser"
	"github.com/xjslang/xjs/token"

	"verif/fw"
	"verif/gen"
	"verif/norm"
)

// ---- C04: plugin interception is transparent, ordered and re-entrant -------

type icEvent struct {
	kind  byte // 't' token, 's' statement, 'e' expression
	idx   int  // interceptor index in installation order (per kind)
	start token.Position
	ttype token.Type
	// token interceptors: lexer state on entry and the token next() returned
	lxLine, lxCol int
	lxChar        byte
	ret           token.Token
	// expression interceptors: hook value before / after next()
	precBefore, precAfter int
	precOK                bool
	reentrant             bool
}

type icStack struct {
	nTok, nStmt, nExpr int
	reentrant          []bool // per expression interceptor: may take the re-entrant path
	dispatch           []bool // per statement interceptor: may parse the statement itself through the public Parse*Statement API
	coin               *rand.Rand
	viaPlugin          bool
	plugMask           uint64  // with viaPlugin: bit i set = the i-th installed interceptor goes through Install(plugin), else directly
	interleave         []byte  // installation order of kinds, e.g. "tsetse"
	stageAt            int     // interceptors interleave[stageAt:] are installed only after a first parser was built from the builders
	regs               []opReg // operators registered on the builders before any interceptor is installed (custom-operators stratum)
}

// newBuilders returns the lexer and parser builders the interceptors are installed on: plain ones, or ones that carry
// the stack's registered operators (C05's buildWith: token types, the token interceptor that lexes the operator
// characters, the operator registrations).
func (s *icStack) newBuilders(m Mode) (*lexer.Builder, *parser.Builder) {
	if len(s.regs) > 0 {
		pb, err := buildWith(s.regs, m)
		if err != nil {
			panic("registration refused: " + err.Error())
		}
		return pb.LexerBuilder, pb
	}
	lb := lexer.NewBuilder()
	pb := parser.NewBuilder(lb)
	if m.Tolerant {
		pb.WithTolerantMode(true)
	}
	if m.Smart {
		pb.WithSmartSemicolon(true)
	}
	return lb, pb
}

// baseParse is the interceptor-free parse of the same configuration.
func (s *icStack) baseParse(src string, m Mode) ParseOut {
	if len(s.regs) == 0 {
		return parse(src, m)
	}
	_, pb := s.newBuilders(m)
	p := pb.Build(src)
	prog, err := p.ParseProgram()
	return ParseOut{Prog: prog, Err: err, Errors: p.Errors(), P: p}
}

// plainTokens is the interceptor-free token stream of the same configuration.
func (s *icStack) plainTokens(src string) []token.Token {
	if len(s.regs) == 0 {
		return plainTokens(src)
	}
	lb, _ := s.newBuilders(Mode{})
	return drainTokens(lb.Build(src), len(src)+2)
}

// prefix is the stack consisting of the first n installed interceptors.
func (s *icStack) prefix(n int) *icStack {
	p := *s
	p.interleave = s.interleave[:n]
	p.nTok, p.nStmt, p.nExpr = 0, 0, 0
	for _, k := range p.interleave {
		switch k {
		case 't':
			p.nTok++
		case 's':
			p.nStmt++
		case 'e':
			p.nExpr++
		}
	}
	p.stageAt = n
	return &p
}

type icRun struct {
	events []icEvent
	tokens []token.Token
	out    ParseOut
}

// build installs the first stageAt interceptors and returns the builder plus a function that installs the rest
// (on the same lexer and parser builders), to be called after a parser has already been built.
func (s *icStack) build(m Mode, run *icRun) (*parser.Builder, func()) {
	lb, pb := s.newBuilders(m)
	ti, si, ei := 0, 0, 0
	install := func(k byte) {
		switch k {
		case 't':
			i := ti
			ti++
			f := func(l *lexer.Lexer, next func() token.Token) token.Token {
				ev := icEvent{kind: 't', idx: i, lxLine: l.Line, lxCol: l.Column, lxChar: l.CurrentChar}
				tok := next()
				ev.ret = tok
				ev.start = tok.Start
				run.events = append(run.events, ev)
				if i == 0 {
					run.tokens = append(run.tokens, tok)
				}
				return tok
			}
			lb.UseTokenInterceptor(f)
		case 's':
			i := si
			si++
			disp := s.dispatch[i]
			f := func(p *parser.Parser, next func() ast.Statement) ast.Statement {
				pos := len(run.events)
				run.events = append(run.events, icEvent{kind: 's', idx: i, start: p.CurrentToken.Start, ttype: p.CurrentToken.Type})
				if disp && s.coin.IntN(2) == 0 {
					run.events[pos].reentrant = true
					return dispatchStatement(p)
				}
				return next()
			}
			if s.viaPlugin && s.plugMask>>(uint(ti+si+ei)%64)&1 == 1 {
				if i%2 == 0 {
					pb.Install(func(b *parser.Builder) { b.UseStatementInterceptor(f) })
				} else {
					// a plugin that installs another plugin
					pb.Install(func(b *parser.Builder) { b.Install(func(b2 *parser.Builder) { b2.UseStatementInterceptor(f) }) })
				}
			} else {
				pb.UseStatementInterceptor(f)
			}
		case 'e':
			i := ei
			ei++
			re := s.reentrant[i]
			f := func(p *parser.Parser, next func() ast.Expression) ast.Expression {
				ev := icEvent{kind: 'e', idx: i, start: p.CurrentToken.Start, ttype: p.CurrentToken.Type}
				ev.precBefore, ev.precOK = hookExprPrec(p)
				pos := len(run.events)
				run.events = append(run.events, ev)
				var res ast.Expression
				if re && s.coin.IntN(2) == 0 {
					run.events[pos].reentrant = true
					var left ast.Expression
					if s.coin.IntN(2) == 0 {
						left = p.ParsePrefixExpression()
					} else {
						left = dispatchPrefix(p)
					}
					res = p.ParseRemainingExpression(left)
				} else {
					res = next()
				}
				run.events[pos].precAfter, _ = hookExprPrec(p)
				return res
			}
			if s.viaPlugin && s.plugMask>>(uint(ti+si+ei)%64)&1 == 1 {
				if i%2 == 0 {
					pb.Install(func(b *parser.Builder) { b.UseExpressionInterceptor(f) })
				} else {
					pb.Install(func(b *parser.Builder) { b.Install(func(b2 *parser.Builder) { b2.UseExpressionInterceptor(f) }) })
				}
			} else {
				pb.UseExpressionInterceptor(f)
			}
		}
	}
	for _, k := range s.interleave[:s.stageAt] {
		install(k)
	}
	return pb, func() {
		for _, k := range s.interleave[s.stageAt:] {
			install(k)
		}
	}
}

// dispatchStatement parses the statement at the current token the way a plugin does that handles statements itself:
// through the public Parse*Statement functions (a `while` statement is assembled by hand from ExpectToken / NextToken /
// ParseExpression / ParseStatement, exactly like the built-in). The result must be what the default path gives.
func dispatchStatement(p *parser.Parser) ast.Statement {
	switch p.CurrentToken.Type {
	case token.LET:
		if st := p.ParseLetStatement(); st != nil {
			return st
		}
	case token.FUNCTION:
		if st := p.ParseFunctionStatement(); st != nil {
			return st
		}
	case token.RETURN:
		if st := p.ParseReturnStatement(); st != nil {
			return st
		}
	case token.IF:
		if st := p.ParseIfStatement(); st != nil {
			return st
		}
	case token.WHILE:
		st := &ast.WhileStatement{Token: p.CurrentToken}
		if !p.ExpectToken(token.LPAREN) {
			return nil
		}
		p.NextToken()
		st.Condition = p.ParseExpression()
		if !p.ExpectToken(token.RPAREN) {
			return nil
		}
		p.NextToken()
		st.Body = p.ParseStatement()
		return st
	case token.FOR:
		if st := p.ParseForStatement(); st != nil {
			return st
		}
	case token.LBRACE:
		return p.ParseBlockStatement()
	default:
		if st := p.ParseExpressionStatement(); st != nil {
			return st
		}
	}
	return nil
}

// dispatchPrefix parses the prefix at the current token through the specific public parse function where the token
// type determines it (what a plugin that special-cases one kind of operand does), else through ParsePrefixExpression.
func dispatchPrefix(p *parser.Parser) ast.Expression {
	switch p.CurrentToken.Type {
	case token.IDENT:
		return p.ParseIdentifier()
	case token.INT:
		return p.ParseIntegerLiteral()
	case token.FLOAT:
		return p.ParseFloatLiteral()
	case token.STRING:
		return p.ParseStringLiteral()
	case token.RAW_STRING:
		return p.ParseMultiStringLiteral()
	case token.TRUE, token.FALSE:
		return p.ParseBooleanLiteral()
	case token.NULL:
		return p.ParseNullLiteral()
	case token.NOT, token.MINUS, token.INCREMENT, token.DECREMENT:
		return p.ParseUnaryExpression()
	case token.LPAREN:
		return p.ParseGroupedExpression()
	case token.LBRACKET:
		return p.ParseArrayLiteral()
	case token.LBRACE:
		return p.ParseObjectLiteral()
	case token.FUNCTION:
		return p.ParseFunctionExpression()
	}
	return p.ParsePrefixExpression()
}

func randStack(r *rand.Rand, allowReentrant bool) *icStack {
	s := &icStack{nTok: r.IntN(9), nStmt: r.IntN(9), nExpr: r.IntN(9), viaPlugin: r.IntN(2) == 0}
	// directly installed interceptors and plugin-installed ones are mixed (installation order is what counts): all
	// through plugins on a third of the plugin stacks, a random mixture otherwise
	s.plugMask = ^uint64(0)
	if r.IntN(3) > 0 {
		s.plugMask = r.Uint64()
	}
	s.reentrant = make([]bool, s.nExpr)
	s.dispatch = make([]bool, s.nStmt)
	if allowReentrant {
		for i := range s.reentrant {
			s.reentrant[i] = r.IntN(2) == 0
		}
		for i := range s.dispatch {
			s.dispatch[i] = r.IntN(3) == 0
		}
	}
	for i := 0; i < s.nTok; i++ {
		s.interleave = append(s.interleave, 't')
	}
	for i := 0; i < s.nStmt; i++ {
		s.interleave = append(s.interleave, 's')
	}
	for i := 0; i < s.nExpr; i++ {
		s.interleave = append(s.interleave, 'e')
	}
	r.Shuffle(len(s.interleave), func(i, j int) { s.interleave[i], s.interleave[j] = s.interleave[j], s.interleave[i] })
	s.stageAt = len(s.interleave)
	if r.IntN(3) == 0 {
		s.stageAt = r.IntN(len(s.interleave) + 1)
	}
	return s
}

func (s *icStack) String() string {
	regs := ""
	if len(s.regs) > 0 {
		regs = fmt.Sprintf(" registered=%v", s.regs)
	}
	return fmt.Sprintf("tok=%d stmt=%d expr=%d reentrant=%v dispatch=%v plugin=%v order=%s|%s%s", s.nTok, s.nStmt, s.nExpr, s.reentrant, s.dispatch, fmt.Sprintf("%v/%x", s.viaPlugin, s.plugMask&0xffffff), string(s.interleave[:s.stageAt]), string(s.interleave[s.stageAt:]), regs)
}

func plainTokens(src string) []token.Token {
	return drainTokens(lexer.NewBuilder().Build(src), len(src)+2)
}

func drainTokens(lx *lexer.Lexer, max int) []token.Token {
	var out []token.Token
	for i := 0; i < max; i++ {
		tk := lx.NextToken()
		out = append(out, tk)
		if tk.Type == token.EOF {
			break
		}
	}
	return out
}

// checkInterception parses src with and without the stack and checks every clause.
// rd is the ground truth of src when it is a rendered valid program (nil for malformed inputs).
func checkInterception(t *fw.T, src string, rd *gen.Rendered, s *icStack, m Mode, seed uint64) {
	wit := func() map[string]any { return map[string]any{"source": src, "stack": s.String(), "mode": m.String()} }
	var base ParseOut
	if !t.Guard("interceptor-free parse", wit, func() { base = s.baseParse(src, m) }) {
		return
	}
	run := &icRun{}
	s.coin = rand.New(rand.NewPCG(seed, 77))
	var pb *parser.Builder
	var installRest func()
	if !t.Guard("install interceptors", wit, func() { pb, installRest = s.build(m, run) }) {
		return
	}
	if s.stageAt < len(s.interleave) {
		// staged installation: a parser built now sees exactly the interceptors installed so far; the ones installed on the
		// same builders afterwards must be seen by every parser built later (and only by those)
		t.Count("staged_installations", 1)
		if !checkOneInterceptedParse(t, src, rd, s.prefix(s.stageAt), m, pb, run, base, -1, wit) {
			return
		}
		if !t.Guard("install more interceptors after a Build", wit, installRest) {
			return
		}
	}
	// one builder builds several parsers one after the other: every one of them must behave the same
	for rep := 0; rep < 3; rep++ {
		run.events, run.tokens, run.out = nil, nil, ParseOut{}
		if !checkOneInterceptedParse(t, src, rd, s, m, pb, run, base, rep, wit) {
			return
		}
	}
}

// checkOneInterceptedParse builds one more parser from pb, parses src and checks every clause; false = stop.
func checkOneInterceptedParse(t *fw.T, src string, rd *gen.Rendered, s *icStack, m Mode, pb *parser.Builder, run *icRun, base ParseOut, rep int, wit0 func() map[string]any) bool {
	wit := func() map[string]any {
		w := wit0()
		w["build_number"] = rep + 1
		return w
	}
	ok := t.Guard("parse with interceptors", wit, func() {
		p := pb.Build(src)
		prog, err := p.ParseProgram()
		run.out = ParseOut{Prog: prog, Err: err, Errors: p.Errors(), P: p}
	})
	if !ok {
		return false
	}
	t.Count("parses_with_interceptors", 1)
	t.Count("interceptor_invocations", len(run.events))
	allPass := true
	passKind := map[byte]bool{'t': true, 's': true, 'e': true}
	nRe, nDisp := 0, 0
	for _, e := range run.events {
		if e.reentrant {
			allPass = false
			passKind[e.kind] = false
			if e.kind == 's' {
				nDisp++
			} else {
				nRe++
			}
		}
	}
	t.Count("reentrant_steps", nRe)
	t.Count("statements_parsed_by_an_interceptor_through_the_public_API", nDisp)
	key := "pass-through"
	if !allPass {
		key = "re-entrant"
	}
	// --- transparency
	if !reflect.DeepEqual(base.Errors, run.out.Errors) || (base.Err == nil) != (run.out.Err == nil) {
		w := wit()
		w["errors_without"], w["errors_with"] = base.Errors, run.out.Errors
		t.Violate("transparency-errors", key, "installing interceptors changes the error list of "+fmt.Sprintf("%q", clip(src, 160)), w)
		return false
	}
	if !reflect.DeepEqual(base.Prog, run.out.Prog) {
		w := wit()
		a, b := "", ""
		t.Guard("normalise", nil, func() { a, b = norm.SPlus(base.Prog), norm.SPlus(run.out.Prog) })
		w["tree_without"], w["tree_with"] = a, b
		t.Violate("transparency-tree", key+"/"+diffKey(a, b), "installing interceptors changes the tree of "+fmt.Sprintf("%q", clip(src, 160)), w)
		return false
	}
	if base.Err == nil {
		for _, c := range []Cfg{CfgCompact, CfgPretty} {
			var x, y string
			if t.Guard("compile", wit, func() { x, y = c.Compile(base.Prog).Code, c.Compile(run.out.Prog).Code }) && x != y {
				t.Violate("transparency-output", key+"/"+c.String(), "installing interceptors changes the "+c.String()+" output", wit())
				return false
			}
		}
	}
	// --- once per parse step, also on malformed input and after errors: every entry of a statement list of the returned
	// tree (program, blocks, function bodies - at any depth) is the result of one statement step, so each statement
	// interceptor has run at least that often, whatever was reported before the step
	if s.nStmt > 0 && passKind['s'] && run.out.Prog != nil {
		nList := 0
		t.Guard("count list statements", wit, func() { nList = countListStatements(run.out.Prog) })
		per := map[int]int{}
		for _, e := range run.events {
			if e.kind == 's' {
				per[e.idx]++
			}
		}
		for i := 0; i < s.nStmt; i++ {
			if per[i] < nList {
				t.Violate("statement-steps-not-offered", fmt.Sprintf("errors=%v", len(run.out.Errors) > 0), fmt.Sprintf("statement interceptor #%d ran %d times, but the returned tree holds %d statements in its statement lists (each the result of a statement step; %d errors reported): %q", i, per[i], nList, len(run.out.Errors), clip(src, 160)), wit())
				return false
			}
		}
		t.Count("parses_with_statement_steps_counted_against_the_tree", 1)
	}
	// ... and the same for expressions: every expression a statement holds directly (expression statement, initialiser,
	// return value, condition, for-header parts) is the result of at least one expression step
	if s.nExpr > 0 && passKind['e'] && run.out.Prog != nil {
		nFull := 0
		t.Guard("count full expressions", wit, func() { nFull = countFullExpressions(run.out.Prog) })
		per := map[int]int{}
		for _, e := range run.events {
			if e.kind == 'e' {
				per[e.idx]++
			}
		}
		for i := 0; i < s.nExpr; i++ {
			if per[i] < nFull {
				t.Violate("expression-steps-not-offered", fmt.Sprintf("errors=%v", len(run.out.Errors) > 0), fmt.Sprintf("expression interceptor #%d ran %d times, but the statements of the returned tree hold %d expressions (each the result of an expression step; %d errors reported): %q", i, per[i], nFull, len(run.out.Errors), clip(src, 160)), wit())
				return false
			}
		}
		t.Count("parses_with_expression_steps_counted_against_the_tree", 1)
	}
	if s.nTok > 0 && rep <= 0 {
		// the lexer driven directly: every request for a token - also the requests at and after end of input - goes
		// through every token interceptor exactly once (a plugin may turn end-of-input into synthetic tokens)
		nreq := len(s.plainTokens(src)) + 3
		before := len(run.events)
		okLex := t.Guard("lexer with token interceptors", wit, func() {
			lx := pb.LexerBuilder.Build(src)
			for i := 0; i < nreq; i++ {
				lx.NextToken()
			}
		})
		per := map[int]int{}
		for _, e := range run.events[before:] {
			if e.kind == 't' {
				per[e.idx]++
			}
		}
		run.events = run.events[:before]
		if len(run.tokens) > 0 {
			// run.tokens collects what interceptor #0 saw: drop what the direct drive added
			cut := len(run.tokens) - per[0]
			if cut >= 0 {
				run.tokens = run.tokens[:cut]
			}
		}
		if okLex {
			t.Count("lexer_requests_through_interceptors", nreq)
			for i := 0; i < s.nTok; i++ {
				if per[i] != nreq {
					t.Violate("token-once", "per request", fmt.Sprintf("token interceptor #%d ran %d times for %d token requests (%d of them at or after end of input) on %q", i, per[i], nreq, 3, clip(src, 160)), wit())
					return false
				}
			}
		}
	}
	if s.nTok > 0 {
		plain := s.plainTokens(src)
		// tokens seen by the innermost... index 0 is the first installed token interceptor: compare up to the first EOF
		seen := run.tokens
		n := 0
		for n < len(seen) && seen[n].Type != token.EOF {
			n++
		}
		if n+1 != len(plain) || (n < len(seen) && !reflect.DeepEqual(seen[:n+1], plain)) {
			w := wit()
			w["tokens_plain"], w["tokens_seen"] = len(plain), n+1
			t.Violate("transparency-tokens", "token sequence", "tokens delivered through interceptors differ from the plain token stream of "+fmt.Sprintf("%q", clip(src, 160)), w)
			return false
		}
	}
	// --- per-kind sequences and order
	type seqKey struct {
		kind byte
		idx  int
	}
	seqs := map[seqKey][]token.Position{}
	for _, e := range run.events {
		k := seqKey{e.kind, e.idx}
		seqs[k] = append(seqs[k], e.start)
	}
	counts := map[byte]int{'t': s.nTok, 's': s.nStmt, 'e': s.nExpr}
	names := map[byte]string{'t': "token", 's': "statement", 'e': "expression"}
	for _, kind := range []byte{'t', 's', 'e'} {
		if !passKind[kind] {
			continue // an interceptor that takes the re-entrant path does not call next(): later ones legitimately skip that step
		}
		for i := 1; i < counts[kind]; i++ {
			if !reflect.DeepEqual(seqs[seqKey{kind, 0}], seqs[seqKey{kind, i}]) {
				w := wit()
				w["first"], w["other"] = len(seqs[seqKey{kind, 0}]), len(seqs[seqKey{kind, i}])
				t.Violate("steps-differ", names[kind], fmt.Sprintf("%s interceptors #0 and #%d saw different step sequences (%d vs %d steps) on %q", names[kind], i, len(seqs[seqKey{kind, 0}]), len(seqs[seqKey{kind, i}]), clip(src, 160)), w)
				return false
			}
		}
	}
	// installation order within a step (statement, expression): enters of one step are consecutive, idx 0,1,2...
	if allPass {
		var lastKind byte
		lastIdx := -1
		var lastStart token.Position
		for _, e := range run.events {
			if e.kind == 't' {
				continue
			}
			if e.idx > 0 {
				if lastKind != e.kind || lastIdx != e.idx-1 || lastStart != e.start {
					t.Violate("installation-order", names[e.kind], fmt.Sprintf("%s interceptor #%d entered without #%d entering the same step just before it, on %q", names[e.kind], e.idx, e.idx-1, clip(src, 160)), wit())
					return false
				}
			}
			lastKind, lastIdx, lastStart = e.kind, e.idx, e.start
		}
		// token interceptors: wrap chain, last installed outermost; events are appended on return from next(), so for one
		// token the innermost (first installed) appears first
		ti := -1
		for _, e := range run.events {
			if e.kind != 't' {
				continue
			}
			if e.idx != (ti+1)%max(1, s.nTok) {
				t.Violate("token-chain-order", "chain", fmt.Sprintf("token interceptors did not run once each per token in chain order (saw #%d after #%d) on %q", e.idx, ti, clip(src, 160)), wit())
				return false
			}
			ti = e.idx
		}
	}
	// hook: binding power identical before and after next()
	for _, e := range run.events {
		if e.kind == 'e' && e.precOK {
			t.Count("hook_binding_power_checked", 1)
			if e.precBefore != e.precAfter {
				// an observation about a private field, not a clause of the property: recorded in the evidence, judged only
				// through what it does to trees (transparency and re-entrancy clauses above)
				t.Count("hook_binding_power_differs_after_a_step (observed, not judged)", 1)
			}
		}
	}
	if s.nTok > 0 && (rd == nil || base.Err != nil) {
		// without a token table (malformed input, hostile starts such as a byte order mark): the lexer stands, on entry, where
		// the token that next() then returns begins (that tokens begin at their first byte is C10's clause)
		for _, e := range run.events {
			if e.kind != 't' {
				continue
			}
			if e.lxLine != e.ret.Start.Line || e.lxCol != e.ret.Start.Column {
				t.Violate("token-lexer-position", "entry position differs from the start of the returned token/"+classOf(e.ret.Type), fmt.Sprintf("token interceptor #%d entered with the lexer at %d:%d on %q, the token that next() returned (%v %q) begins at %v: %q", e.idx, e.lxLine, e.lxCol, e.lxChar, e.ret.Type, clip(e.ret.Literal, 20), e.ret.Start, clip(src, 160)), wit())
				return false
			}
		}
		t.Count("token_steps_checked_against_the_returned_token", 1)
	}
	if rd == nil || base.Err != nil {
		return true
	}
	// --- ground truth: current tokens are construct starts; every construct offered once
	byPos := map[token.Position]*gen.Tok{}
	for i := range rd.Toks {
		tk := &rd.Toks[i]
		byPos[token.Position{Line: tk.Line, Column: tk.Col}] = tk
	}
	if s.nStmt > 0 {
		seen := map[token.Position]int{}
		for _, p := range seqs[seqKey{'s', 0}] {
			seen[p]++
			gt := byPos[p]
			if gt == nil || !gt.StmtStart {
				t.Violate("statement-current-token", "not a statement start", fmt.Sprintf("statement interceptor ran with current token at %v which is not the first token of a statement: %s", p, gen.Describe(src)), wit())
				return false
			}
			if seen[p] > 1 {
				t.Violate("statement-current-token", "offered twice", fmt.Sprintf("statement at %v offered twice: %s", p, gen.Describe(src)), wit())
				return false
			}
		}
		for i := range rd.Toks {
			tk := &rd.Toks[i]
			if tk.StmtStart && seen[token.Position{Line: tk.Line, Column: tk.Col}] == 0 {
				t.Violate("statement-current-token", "never offered", fmt.Sprintf("statement starting with %q at %d:%d was never offered to the statement interceptors: %s", tk.Text, tk.Line, tk.Col, gen.Describe(src)), wit())
				return false
			}
		}
	}
	if s.nExpr > 0 && passKind['e'] {
		seen := map[token.Position]int{}
		for _, p := range seqs[seqKey{'e', 0}] {
			seen[p]++
			gt := byPos[p]
			if gt == nil || gt.ExprStarts == 0 {
				t.Violate("expression-current-token", "not an expression start", fmt.Sprintf("expression interceptor ran with current token at %v which does not begin a (sub)expression: %s", p, gen.Describe(src)), wit())
				return false
			}
			if seen[p] > 1 {
				t.Violate("expression-current-token", "offered twice", fmt.Sprintf("expression start at %v offered twice: %s", p, gen.Describe(src)), wit())
				return false
			}
		}
		for i := range rd.Toks {
			tk := &rd.Toks[i]
			if tk.FullExpr && seen[token.Position{Line: tk.Line, Column: tk.Col}] == 0 {
				t.Violate("expression-current-token", "full expression never offered", fmt.Sprintf("full expression starting with %q at %d:%d was never offered: %s", tk.Text, tk.Line, tk.Col, gen.Describe(src)), wit())
				return false
			}
		}
	}
	if s.nTok > 0 && rd != nil {
		// lexer positioned on the first byte of the token that next() returns (ground truth: renderer token table)
		k := 0
		for _, e := range run.events {
			if e.kind != 't' || e.idx != 0 {
				continue
			}
			if k < len(rd.Toks) {
				gt := rd.Toks[k]
				if e.lxLine != gt.Line || e.lxCol != gt.Col || e.lxChar != gt.Text[0] {
					t.Violate("token-lexer-position", classOf(e.ret.Type), fmt.Sprintf("token interceptor entered with the lexer at %d:%d on %q, the next lexeme %q begins at %d:%d: %s", e.lxLine, e.lxCol, e.lxChar, gt.Text, gt.Line, gt.Col, gen.Describe(src)), wit())
					return false
				}
			} else if e.lxLine != rd.EOF.Line || e.lxCol != rd.EOF.Col {
				t.Violate("token-lexer-position", "end of input", fmt.Sprintf("token interceptor entered at %d:%d for end of input, which is at %d:%d", e.lxLine, e.lxCol, rd.EOF.Line, rd.EOF.Col), wit())
				return false
			}
			k++
		}
		if k < len(rd.Toks)+1 {
			t.Violate("token-once", "missing", fmt.Sprintf("token interceptor ran %d times for %d tokens + end of input", k, len(rd.Toks)), wit())
		}
	}
	return true
}

// ---- registered operators x interceptors ----------------------------------------------------------------------------

// analogOf returns the tree in which every registered operator is replaced by a built-in operator of the same level
// (infix levels 3..8 have one; a registered prefix operator binds like `!`), or nil if some operator has no built-in
// analog. Renderings of both trees have the same parentheses and therefore the same token count, token by token.
func analogOf(n *cnode) *cnode {
	builtinAt := map[int]string{3: "||", 4: "&&", 5: "==", 6: "<", 7: "+", 8: "*"}
	c := *n
	c.kids = nil
	switch n.kind {
	case "cin":
		op, ok := builtinAt[n.level]
		if !ok {
			return nil
		}
		c.kind, c.op = "bin", op
	case "cpre":
		c.kind, c.op = "un", "!"
	case "cpost":
		return nil
	}
	for _, k := range n.kids {
		a := analogOf(k)
		if a == nil {
			return nil
		}
		c.kids = append(c.kids, a)
	}
	return &c
}

// stepIndices parses src with one pass-through statement and one pass-through expression interceptor and returns, per
// kind, the token indices of the current tokens the interceptor saw, in order.
func stepIndices(s *icStack, src string) (stmt, expr []int, errs int) {
	toks := s.plainTokens(src)
	idx := map[token.Position]int{}
	for i, tk := range toks {
		idx[tk.Start] = i
	}
	_, pb := s.newBuilders(Mode{})
	pb.UseStatementInterceptor(func(p *parser.Parser, next func() ast.Statement) ast.Statement {
		stmt = append(stmt, idx[p.CurrentToken.Start])
		return next()
	})
	pb.UseExpressionInterceptor(func(p *parser.Parser, next func() ast.Expression) ast.Expression {
		expr = append(expr, idx[p.CurrentToken.Start])
		return next()
	})
	p := pb.Build(src)
	p.ParseProgram()
	return stmt, expr, len(p.Errors())
}

// runC04Custom: the builders carry registered prefix / infix / postfix operators (levels 2..13, also above MEMBER) and
// the programs use them. Everything the property says about interceptors must hold on such builders as well: same tree
// and errors as the interceptor-free parse of the same configuration (pass-through and re-entrant stacks), same step
// sequences for all interceptors of a kind, installation order. In addition, where every registered operator has a
// built-in operator of the same level, a pass-through interceptor must be offered exactly the steps it is offered on
// the text in which the built-in operators stand in for the registered ones: operands of registered operators are
// parse steps like any other.
func runC04Custom(t *fw.T) {
	r := t.Rand()
	n := 1 + r.IntN(3)
	var regs []opReg
	used := map[byte]bool{}
	analogOnly := r.IntN(2) == 0
	for i := 0; i < n; i++ {
		ch := customChars[r.IntN(len(customChars))]
		if used[ch] {
			continue
		}
		used[ch] = true
		role := []string{"infix", "infix", "infix", "prefix", "postfix"}[r.IntN(5)]
		lvl := 2 + r.IntN(12)
		if r.IntN(4) == 0 {
			lvl = 13
		}
		if analogOnly {
			lvl = 3 + r.IntN(6)
			if role == "postfix" {
				role = "prefix"
			}
		}
		regs = append(regs, opReg{ch: ch, role: role, level: lvl})
	}
	var stmts []string
	var trees []*cnode
	for i, k := 0, 1+r.IntN(3); i < k; i++ {
		tr := randCustomTree(r, 1+r.IntN(5), regs)
		trees = append(trees, tr)
		stmts = append(stmts, tr.String())
	}
	src := strings.Join(stmts, ";\n") + ";"
	for i := 0; i < 3; i++ {
		s := randStack(r, i > 0)
		s.regs = regs
		checkInterception(t, src, nil, s, Mode{}, r.Uint64())
		t.Distinct(src + s.String())
	}
	t.Count("programs_with_registered_operators", 1)
	for _, rg := range regs {
		t.Feature("registered operator role/level under interceptors", fmt.Sprintf("%s/%d", rg.role, rg.level))
	}
	if !analogOnly {
		return
	}
	var astmts []string
	for _, tr := range trees {
		a := analogOf(tr)
		if a == nil {
			return
		}
		astmts = append(astmts, a.String())
	}
	asrc := strings.Join(astmts, ";\n") + ";"
	wit := func() map[string]any {
		return map[string]any{"source": src, "registered": fmt.Sprint(regs), "same_text_with_built_in_operators": asrc}
	}
	var cs, ce, as, ae []int
	var cerr, aerr int
	if !t.Guard("parse with a pass-through interceptor", wit, func() {
		cs, ce, cerr = stepIndices(&icStack{regs: regs}, src)
		as, ae, aerr = stepIndices(&icStack{}, asrc)
	}) {
		return
	}
	if cerr != 0 || aerr != 0 {
		return // grouping / acceptance of registered operators is C05's business
	}
	t.Count("step_sequences_compared_with_the_built_in_analog", 1)
	if !reflect.DeepEqual(cs, as) {
		w := wit()
		w["statement_steps_token_indices"], w["with_built_in_operators"] = cs, as
		t.Violate("steps-differ", "statement/registered operators vs built-in operators of the same level", fmt.Sprintf("statement interceptor is offered different steps on %q than on %q", clip(src, 120), clip(asrc, 120)), w)
		return
	}
	if !reflect.DeepEqual(ce, ae) {
		w := wit()
		w["expression_steps_token_indices"], w["with_built_in_operators"] = ce, ae
		t.Violate("steps-differ", "expression/registered operators vs built-in operators of the same level", fmt.Sprintf("expression interceptor is offered different steps on %q than on %q (token indices %v vs %v)", clip(src, 120), clip(asrc, 120), ce, ae), w)
	}
}

// runC04ForkedBuilder: k interceptors of each kind are installed, then a mode setter is called and its return value kept,
// then one more interceptor is installed through the receiver and one through the returned builder. Whether the setter
// returns its receiver (as documented: "returns the builder for chaining") or a derived builder, a parser built from
// either must run exactly the interceptors installed on that builder, once per step, in installation order - and
// never one that was installed on the other.
func runC04ForkedBuilder(t *fw.T) {
	k := t.Index % 9
	setter := (t.Index / 9) % 4
	var seen []string
	mk := func(id string) parser.Interceptor[ast.Expression] {
		return func(p *parser.Parser, next func() ast.Expression) ast.Expression {
			if p.CurrentToken.Literal == "probe" {
				seen = append(seen, id)
			}
			return next()
		}
	}
	mkS := func(id string) parser.Interceptor[ast.Statement] {
		return func(p *parser.Parser, next func() ast.Statement) ast.Statement {
			seen = append(seen, id)
			return next()
		}
	}
	wit := func() map[string]any { return map[string]any{"first_stage_interceptors_per_kind": k, "setter": setter} }
	var pb, pb2 *parser.Builder
	if !t.Guard("configure", wit, func() {
		pb = parser.NewBuilder(lexer.NewBuilder())
		for i := 0; i < k; i++ {
			pb.UseExpressionInterceptor(mk(fmt.Sprintf("e%d", i)))
			pb.UseStatementInterceptor(mkS(fmt.Sprintf("s%d", i)))
		}
		switch setter {
		case 0:
			pb2 = pb.WithTolerantMode(false)
		case 1:
			pb2 = pb.WithSmartSemicolon(false)
		case 2:
			pb2 = pb.WithTolerantMode(true).WithTolerantMode(false)
		default:
			pb2 = pb.WithSmartSemicolon(false).WithTolerantMode(false)
		}
		pb.UseExpressionInterceptor(mk("eX"))
		pb.UseStatementInterceptor(mkS("sX"))
		pb2.UseExpressionInterceptor(mk("eY"))
		pb2.UseStatementInterceptor(mkS("sY"))
	}) {
		return
	}
	same := pb == pb2
	expect := func(own string) []string {
		var out []string
		for _, kind := range []string{"s", "e"} {
			for i := 0; i < k; i++ {
				out = append(out, fmt.Sprintf("%s%d", kind, i))
			}
			switch {
			case same:
				out = append(out, kind+"X", kind+"Y")
			default:
				out = append(out, kind+own)
			}
		}
		return out
	}
	for _, c := range []struct {
		b   *parser.Builder
		own string
	}{{pb, "X"}, {pb2, "Y"}, {pb, "X"}} {
		seen = nil
		if !t.Guard("parse", wit, func() { c.b.Build("probe").ParseProgram() }) {
			return
		}
		t.Count("parsers_built_after_a_mode_setter_between_installations", 1)
		if want := expect(c.own); !reflect.DeepEqual(seen, want) {
			w := wit()
			w["interceptors_run"], w["interceptors_installed_on_this_builder"] = seen, want
			t.Violate("installation-order", "builder used after a mode setter", fmt.Sprintf("a parser built from a builder on which %d+1 interceptors per kind were installed around a mode-setter call ran %v, installed on it: %v", k, seen, want), w)
			return
		}
	}
	t.Distinct(fmt.Sprint("fork", k, setter))
}

var c04DeepShapes = []func(n int) string{
	func(n int) string { return nest("(", "x", ")", n) },
	func(n int) string { return nest("[", "1", "]", n) },
	func(n int) string { return nest("{", "", "}", n) },
	func(n int) string { return strings.Repeat("!", n) + "x" },
	func(n int) string { return "a" + strings.Repeat(".b", n) },
	func(n int) string { return "a" + strings.Repeat("(1)", n) },
	func(n int) string { return strings.Repeat("if (a) ", n) + "b" },
	func(n int) string { return nest("f(", "", ")", n) },
	func(n int) string { return nest("function(){", "", "}", n) + "()" },
	func(n int) string { return strings.Repeat("a = ", n) + "1" },
	func(n int) string { return "x" + strings.Repeat(" + 1", n) },
	func(n int) string { return nest("{ let v = [", "1", "] }", n) },
	func(n int) string { return strings.Repeat("(", n) },
	func(n int) string { return strings.Repeat("{", n) },
}

// runC04Deep: deeply nested inputs (valid and unclosed) under interceptor stacks. The number of installed interceptors
// must not change what is accepted: any resource that is consumed per interceptor and per nesting level shows here.
func runC04Deep(t *fw.T) {
	r := t.Rand()
	shape := c04DeepShapes[t.Index%len(c04DeepShapes)]
	depths := []int{40, 150, 400, 1000}
	d := depths[(t.Index/len(c04DeepShapes))%len(depths)]
	src := shape(d)
	s := randStack(r, r.IntN(2) == 0)
	checkInterception(t, src, nil, s, AllModes[r.IntN(4)], r.Uint64())
	t.Distinct(fmt.Sprint(t.Index%len(c04DeepShapes), d, s.String()))
	t.Feature("nesting depth x interceptors per kind", fmt.Sprintf("%d x %d", d, max(s.nStmt, s.nExpr)))
}

func init() {
	fw.Register(&fw.Property{
		ID: "C04", Level: "exploration",
		Rule: "each program / malformed input is parsed interceptor-free and with a random stack of 0..8 token, 0..8 statement and 0..8 expression interceptors (installation interleaved, directly or via Install(plugin); expression interceptors pass through or, by a per-step coin, take the re-entrant path ParsePrefixExpression+ParseRemainingExpression). Recorded: every invocation with current token, lexer state (token interceptors), hook binding power before/after. Checked: tokens/tree(DeepEqual)/errors/outputs unchanged; same step sequence for all interceptors of a kind; installation order within a step; statement/expression current tokens against the renderer's ground truth (every statement and every full expression offered exactly once); lexer on the lexeme's first byte; binding power restored. distinct = distinct (source, stack).",
		Assumptions: []string{
			"ordering clauses are judged on all-pass-through stacks; transparency and re-entrancy on all stacks",
			"expression ground truth: every invocation must be at the first token of some (sub)expression and every full-expression position must be offered once; which sub-expressions get their own step is not prescribed",
		},
		Strata: []*fw.Stratum{
			{Name: "programs", Quick: 16000, Thorough: 60000, Run: func(t *fw.T) {
				r := t.Rand()
				o := gen.SynOpts{ExprDepth: 2 + r.IntN(4), StmtDepth: 1 + r.IntN(3), MaxStmts: 1 + r.IntN(4), NumDot: r.IntN(4) == 0}
				if t.Thorough() && r.IntN(4) == 0 {
					o.ExprDepth = 12
				}
				prog := gen.NewSyn(r, o).Program()
				l := stdLayouts[r.IntN(len(stdLayouts))]
				rd := gen.Render(prog, r, l.E, l.L)
				n := 4
				if t.Thorough() {
					n = 8
				}
				for i := 0; i < n; i++ {
					s := randStack(r, i%2 == 1)
					checkInterception(t, rd.Src, rd, s, Mode{}, r.Uint64())
					t.Distinct(rd.Src + s.String())
					t.Feature("stack sizes (tok,stmt,expr)", fmt.Sprintf("%d,%d,%d", s.nTok, s.nStmt, s.nExpr))
				}
				if t.WantSample() && len(rd.Src) < 160 {
					t.Sample(map[string]any{"stratum": "programs", "source": rd.Src, "stack": randStack(r, true).String()})
				}
			}},
			{Name: "malformed", Quick: 60000, Thorough: 300000, PanicInconclusive: true, Run: func(t *fw.T) {
				r := t.Rand()
				var src string
				if r.IntN(2) == 0 {
					_, rd := randProgram(r)
					src = mutate(r, rd)
				} else {
					src = genSoup(r, 1+r.IntN(14))
				}
				s := randStack(r, r.IntN(2) == 0)
				checkInterception(t, src, nil, s, AllModes[r.IntN(4)], r.Uint64())
				t.Distinct(src + s.String())
			}},
			{Name: "registered-operators", Quick: 6000, Thorough: 40000, Run: runC04Custom},
			{Name: "builder-after-mode-setter", Quick: 36, Thorough: 36, Exhaustive: true, Run: runC04ForkedBuilder},
			{Name: "deep-nesting", Quick: 4 * 14 * 4, Thorough: 4 * 14 * 16, Run: runC04Deep},
			{Name: "large-programs", Quick: 2 * len(gen.BigKinds), Thorough: 8 * len(gen.BigKinds), Run: func(t *fw.T) {
				prog, kind, n := bigCase(t)
				r := t.Rand()
				l := bigLayouts[r.IntN(len(bigLayouts))]
				rd := gen.Render(prog, r, l.E, l.L)
				s := randStack(r, r.IntN(2) == 0)
				checkInterception(t, rd.Src, rd, s, Mode{}, r.Uint64())
				t.Distinct(fmt.Sprint(kind, n, s.String()))
			}},
		},
	})
}

// countListStatements: number of entries in all statement lists of the tree (reflective walk, any depth).
func countListStatements(root any) int {
	n := 0
	seen := 0
	var walk func(v reflect.Value)
	walk = func(v reflect.Value) {
		seen++
		if seen > 3_000_000 {
			return
		}
		switch v.Kind() {
		case reflect.Interface, reflect.Ptr:
			if !v.IsNil() {
				walk(v.Elem())
			}
		case reflect.Struct:
			if tn := v.Type().Name(); tn == "Token" || tn == "Position" {
				return
			}
			for i := 0; i < v.NumField(); i++ {
				if !v.Type().Field(i).IsExported() {
					continue
				}
				f := v.Field(i)
				if f.Kind() == reflect.Slice && f.Type().Elem() == stmtIface {
					n += f.Len()
				}
				walk(f)
			}
		case reflect.Slice:
			for j := 0; j < v.Len(); j++ {
				walk(v.Index(j))
			}
		}
	}
	walk(reflect.ValueOf(root))
	return n
}

var fullExprFields = map[string]bool{"ExpressionStatement.Expression": true, "LetStatement.Value": true, "LetExpression.Value": true, "ReturnStatement.ReturnValue": true,
	"IfStatement.Condition": true, "WhileStatement.Condition": true, "ForStatement.Condition": true, "ForStatement.Update": true, "ForStatement.Init": true}

// countFullExpressions: number of non-nil expressions that statements hold directly (a `let` in a for header counts
// through its initialiser only).
func countFullExpressions(root any) int {
	n := 0
	seen := 0
	var walk func(v reflect.Value)
	walk = func(v reflect.Value) {
		seen++
		if seen > 3_000_000 {
			return
		}
		switch v.Kind() {
		case reflect.Interface, reflect.Ptr:
			if !v.IsNil() {
				walk(v.Elem())
			}
		case reflect.Struct:
			tn := v.Type().Name()
			if tn == "Token" || tn == "Position" {
				return
			}
			for i := 0; i < v.NumField(); i++ {
				ft := v.Type().Field(i)
				if !ft.IsExported() {
					continue
				}
				f := v.Field(i)
				if fullExprFields[tn+"."+ft.Name] && !isNilValue(f) {
					if _, isLet := f.Interface().(*ast.LetExpression); !isLet {
						n++
					}
				}
				walk(f)
			}
		case reflect.Slice:
			for j := 0; j < v.Len(); j++ {
				walk(v.Index(j))
			}
		}
	}
	walk(reflect.ValueOf(root))
	return n
}
