package mon

import (
	"crypto/sha256"
	"encoding/json"
	"fmt"
	"github.com/xjslang/xjs/sourcemap"
	"math/rand/v2"
	"os"
	"os/exec"
	"path/filepath"
	"reflect"
	"regexp"
	"runtime"
	"sort"
	"strings"
	"sync"
	"sync/atomic"

	"github.com/davecgh/go-spew/spew"
	"github.com/xjslang/xjs/ast"
	"github.com/xjslang/xjs/compiler"
	"github.com/xjslang/xjs/debug"
	"github.com/xjslang/xjs/lexer"
	"github.com/xjslang/xjs/parser"
	"github.com/xjslang/xjs/token"

	"verif/fw"
	"verif/gen"
	"verif/norm"
)

// ---- C14: instances are isolated and results deterministic, also under concurrency ----

var spewCfg = &spew.ConfigState{Indent: " ", DisableMethods: true, DisablePointerAddresses: true, DisableCapacities: true, SortKeys: true}

// JobSpec is derived deterministically from (seed, index).
type JobSpec struct {
	Index  int
	Src    string
	Mode   Mode
	Regs   []opReg
	NTok   int
	NStmt  int
	NExpr  int
	Retype string // identifier re-typed by a token interceptor into a registered prefix operator ("" = none)
	Cfgs   []Cfg
}

func makeJob(seed int64, idx int) *JobSpec {
	r := rand.New(rand.NewPCG(uint64(seed)*7919+17, uint64(idx)*104729+3))
	j := &JobSpec{Index: idx, Mode: AllModes[r.IntN(4)]}
	switch r.IntN(4) {
	case 0: // no plugins
	case 1, 2:
		// the same characters get different meanings in different jobs
		n := 1 + r.IntN(3)
		used := map[byte]bool{}
		for i := 0; i < n; i++ {
			ch := customChars[r.IntN(len(customChars))]
			if used[ch] {
				continue
			}
			used[ch] = true
			j.Regs = append(j.Regs, opReg{ch: ch, role: []string{"infix", "infix", "prefix", "postfix"}[r.IntN(4)], level: 2 + r.IntN(12)})
		}
	case 3:
		j.Retype = []string{"m", "k", "foo"}[r.IntN(3)]
	}
	j.NTok, j.NStmt, j.NExpr = r.IntN(4), r.IntN(4), r.IntN(4)
	switch r.IntN(3) {
	case 0:
		_, rd := randProgram(r)
		j.Src = rd.Src
	case 1:
		_, rd := randProgram(r)
		j.Src = mutate(r, rd)
	default:
		if len(j.Regs) > 0 {
			j.Src = randCustomTree(r, 2+r.IntN(3), j.Regs).String() + ";\n" + randCustomTree(r, 2, j.Regs).String()
		} else {
			_, rd := randProgram(r)
			j.Src = rd.Src
		}
	}
	all := allCfgs42
	j.Cfgs = []Cfg{all[0], all[1], all[r.IntN(len(all))], all[r.IntN(len(all))], all[r.IntN(len(all))]}
	return j
}

// traceSink collects the interceptor invocation order of one parse (per goroutine use: one sink per builder).
type traceSink struct {
	mu    sync.Mutex
	buf   map[*parser.Parser][]byte
	types []token.Type // the token types this job's lexer builder registered, in registration order
}

func (ts *traceSink) add(p *parser.Parser, kind byte, idx int) {
	ts.mu.Lock()
	if ts.buf == nil {
		ts.buf = map[*parser.Parser][]byte{}
	}
	ts.buf[p] = append(ts.buf[p], kind, byte('0'+idx))
	ts.mu.Unlock()
}

func (ts *traceSink) take(p *parser.Parser) string {
	ts.mu.Lock()
	defer ts.mu.Unlock()
	b := ts.buf[p]
	delete(ts.buf, p)
	return h(string(b))
}

func (j *JobSpec) builder() *parser.Builder { pb, _ := j.builderTraced(); return pb }

func (j *JobSpec) builderTraced() (*parser.Builder, *traceSink) { return j.builderStaged(nil) }

// builderStaged configures the job's builders step by step. With a coin, parsers (and lexers) are built from the
// half-configured builders and run on throwaway inputs between the configuration steps: a builder that has already
// built parsers must still take every later configuration call into account, so the finished builder has to behave
// exactly like one that was configured in one go (the solo reference).
func (j *JobSpec) builderStaged(coin *rand.Rand) (*parser.Builder, *traceSink) {
	ts := &traceSink{}
	lb := lexer.NewBuilder()
	pb := parser.NewBuilder(lb)
	step := func(f func()) {
		f()
		if coin != nil && coin.IntN(4) == 0 {
			func() {
				defer func() { recover() }()
				if coin.IntN(3) == 0 {
					lx := lb.Build("a @ b # 1")
					for i := 0; i < 8; i++ {
						lx.NextToken()
					}
				} else {
					pb.Build("let k = a + b * c\nf(k)").ParseProgram()
				}
			}()
		}
	}
	types := map[byte]token.Type{}
	for _, rg := range j.Regs {
		if _, ok := types[rg.ch]; !ok {
			ch := rg.ch
			step(func() {
				types[ch] = lb.RegisterTokenType("op" + string(ch))
				ts.types = append(ts.types, types[ch])
			})
		}
	}
	var retype token.Type
	if j.Retype != "" {
		step(func() {
			retype = lb.RegisterTokenType("kw-" + j.Retype)
			ts.types = append(ts.types, retype)
		})
	}
	if len(types) > 0 {
		step(func() {
			lb.UseTokenInterceptor(func(l *lexer.Lexer, next func() token.Token) token.Token {
				if tt, ok := types[l.CurrentChar]; ok {
					tok := l.NewToken(tt, string(l.CurrentChar))
					l.ReadChar()
					return tok
				}
				return next()
			})
		})
	}
	if j.Retype != "" {
		name := j.Retype
		step(func() {
			lb.UseTokenInterceptor(func(l *lexer.Lexer, next func() token.Token) token.Token {
				tok := next()
				if tok.Type == token.IDENT && tok.Literal == name {
					tok.Type = retype
				}
				return tok
			})
		})
	}
	for i := 0; i < j.NTok; i++ {
		step(func() {
			lb.UseTokenInterceptor(func(l *lexer.Lexer, next func() token.Token) token.Token { return next() })
		})
	}
	if j.Mode.Tolerant {
		step(func() { pb.WithTolerantMode(true) })
	}
	if j.Mode.Smart {
		step(func() { pb.WithSmartSemicolon(true) })
	}
	for _, rg := range j.Regs {
		rg := rg
		step(func() {
			switch rg.role {
			case "infix":
				pb.RegisterInfixOperator(types[rg.ch], rg.level, func(tok token.Token, left ast.Expression, right func() ast.Expression) ast.Expression {
					return &cInfix{Tok: tok, Op: string(rg.ch), L: left, R: right(), Level: rg.level}
				})
			case "prefix":
				pb.RegisterPrefixOperator(types[rg.ch], func(tok token.Token, right func() ast.Expression) ast.Expression {
					return &cPrefix{Tok: tok, Op: string(rg.ch), X: right()}
				})
			case "postfix":
				pb.RegisterPostfixOperator(types[rg.ch], func(tok token.Token, left ast.Expression) ast.Expression {
					return &cPostfix{Tok: tok, Op: string(rg.ch), X: left}
				})
			}
		})
	}
	if j.Retype != "" {
		name := j.Retype
		step(func() {
			pb.RegisterPrefixOperator(retype, func(tok token.Token, right func() ast.Expression) ast.Expression {
				return &cPrefix{Tok: tok, Op: name + " ", X: right()}
			})
		})
	}
	for i := 0; i < j.NStmt; i++ {
		i := i
		step(func() {
			pb.UseStatementInterceptor(func(p *parser.Parser, next func() ast.Statement) ast.Statement {
				ts.add(p, 's', i)
				return next()
			})
		})
	}
	for i := 0; i < j.NExpr; i++ {
		i := i
		re := i%2 == 1
		step(func() {
			pb.UseExpressionInterceptor(func(p *parser.Parser, next func() ast.Expression) ast.Expression {
				ts.add(p, 'e', i)
				if re {
					return p.ParseRemainingExpression(p.ParsePrefixExpression())
				}
				return next()
			})
		})
	}
	return pb, ts
}

// JobResult: one digest per component so that a difference can be named.
type JobResult struct {
	Trace   string   `json:"trace"` // hash of the sequence of interceptor invocations (kind, index): order-sensitive
	Tree    string   `json:"tree"`
	Errors  string   `json:"errors"`
	Outputs []string `json:"outputs"`
	Debug   string   `json:"debug"`
	Types   string   `json:"types"` // ids and display forms (Type.String()) of the token types the job registered, read after the parse
	Panic   string   `json:"panic,omitempty"`
}

func h(s string) string {
	x := sha256.Sum256([]byte(s))
	return fmt.Sprintf("%x", x[:8])
}

func safeNodeNil(n ast.Node) bool { return walkNil(n) }

// compileAll runs the compile configurations of a job on a tree.
func compileAll(prog *ast.Program, cfgs []Cfg) []string {
	var outs []string
	for _, c := range cfgs {
		res := c.Compile(prog)
		s := res.Code
		if res.SourceMap != nil {
			s += "\x00" + res.SourceMap.Mappings + "\x00" + strings.Join(res.SourceMap.Names, ",")
		}
		outs = append(outs, h(s))
	}
	return outs
}

func parseOnly(pb *parser.Builder, src string) (*ast.Program, []parser.ParserError) {
	p := pb.Build(src)
	prog, _ := p.ParseProgram()
	return prog, p.Errors()
}

func runJobWith(pb *parser.Builder, ts *traceSink, j *JobSpec) (res JobResult) {
	defer func() {
		if r := recover(); r != nil {
			res.Panic = fmt.Sprint(r)
		}
	}()
	p := pb.Build(j.Src)
	return finishJob(p, ts, j)
}

// finishJob runs an already built parser and the job's compilations.
func finishJob(p *parser.Parser, ts *traceSink, j *JobSpec) (res JobResult) {
	defer func() {
		if r := recover(); r != nil {
			res.Panic = fmt.Sprint(r)
		}
	}()
	prog, _ := p.ParseProgram()
	errs := p.Errors()
	if ts != nil {
		res.Trace = ts.take(p)
		for _, tt := range ts.types {
			res.Types += fmt.Sprintf("%d=%s;", int(tt), tt.String())
		}
	}
	res.Tree = h(norm.SCustom(prog, sCustom) + "\x00" + spewCfg.Sdump(prog))
	res.Errors = h(fmt.Sprint(errs))
	if len(errs) == 0 {
		res.Outputs = compileAll(prog, j.Cfgs)
		res.Debug = h(debug.ToString(prog))
	}
	return res
}

func runJob(j *JobSpec) JobResult { pb, ts := j.builderTraced(); return runJobWith(pb, ts, j) }

// RunSoloJob is the `job` subcommand: the job as the only job of a fresh process.
func RunSoloJob(seed int64, idx int) {
	b, _ := json.Marshal(runJob(makeJob(seed, idx)))
	os.Stdout.Write(b)
}

type c14State struct {
	mu       sync.Mutex
	solo     map[int]JobResult
	plain    string
	seed     int64
	kwSnap   map[string]token.Type
	precSnap map[token.Type]int
	orders   map[string]bool
}

func c14(t *fw.T) *c14State { return t.W.State["c14"].(*c14State) }

func (s *c14State) soloResult(idx int) (JobResult, error) {
	s.mu.Lock()
	if r, ok := s.solo[idx]; ok {
		s.mu.Unlock()
		return r, nil
	}
	s.mu.Unlock()
	cmd := exec.Command(s.plain, "job", "-seed", fmt.Sprint(s.seed), "-index", fmt.Sprint(idx))
	cmd.Env = append(os.Environ(), "GORACE=", "GOMAXPROCS=1")
	out, err := cmd.Output()
	if err != nil {
		return JobResult{}, fmt.Errorf("solo process: %v", err)
	}
	var r JobResult
	if err := json.Unmarshal(out, &r); err != nil {
		return JobResult{}, err
	}
	s.mu.Lock()
	s.solo[idx] = r
	s.mu.Unlock()
	return r, nil
}

func diffResult(a, b JobResult) string {
	switch {
	case a.Panic != b.Panic:
		return "panic"
	case a.Trace != b.Trace:
		return "interceptor invocation order"
	case a.Tree != b.Tree:
		return "tree"
	case a.Errors != b.Errors:
		return "errors"
	case a.Types != b.Types:
		return "ids / display forms of registered token types"
	case !reflect.DeepEqual(a.Outputs, b.Outputs):
		return "outputs"
	case a.Debug != b.Debug:
		return "debug string"
	}
	return ""
}

const c14Jobs = 300
const c14JobsThorough = 2000

func nJobs(t *fw.T) int {
	if t.Thorough() {
		return c14JobsThorough
	}
	return c14Jobs
}

// one round: 16 goroutines each run a seed-determined sequence of jobs concurrently
func runC14Round(t *fw.T) {
	st := c14(t)
	r := t.Rand()
	const G = 16
	per := 6
	jobs := make([][]int, G)
	for g := range jobs {
		for k := 0; k < per; k++ {
			jobs[g] = append(jobs[g], r.IntN(nJobs(t)))
		}
	}
	// solo references first (fresh processes), 16 at a time
	need := map[int]bool{}
	for _, js := range jobs {
		for _, j := range js {
			need[j] = true
		}
	}
	var wg sync.WaitGroup
	sem := make(chan struct{}, 16)
	var soloErr atomic.Value
	for j := range need {
		wg.Add(1)
		sem <- struct{}{}
		go func(j int) {
			defer wg.Done()
			defer func() { <-sem }()
			if _, err := st.soloResult(j); err != nil {
				soloErr.Store(err.Error())
			}
		}(j)
	}
	wg.Wait()
	if e := soloErr.Load(); e != nil {
		t.Inconclusive("solo reference process failed", e.(string))
		return
	}
	type obs struct {
		job int
		res JobResult
		seq int64
	}
	results := make([][]obs, G)
	var counter atomic.Int64
	start := make(chan struct{})
	for g := 0; g < G; g++ {
		wg.Add(1)
		go func(g int) {
			defer wg.Done()
			<-start
			for _, ji := range jobs[g] {
				seq := counter.Add(1)
				res := runJob(makeJob(st.seed, ji))
				results[g] = append(results[g], obs{ji, res, seq})
			}
		}(g)
	}
	close(start)
	wg.Wait()
	// order fingerprint: which goroutine obtained which start ticket
	var fp strings.Builder
	for g := range results {
		for _, o := range results[g] {
			fmt.Fprintf(&fp, "%d:%d,", g, o.seq)
		}
	}
	st.mu.Lock()
	st.orders[h(fp.String())] = true
	st.mu.Unlock()
	for g := range results {
		for _, o := range results[g] {
			solo, _ := st.soloResult(o.job)
			t.Count("concurrent_job_executions", 1)
			if d := diffResult(solo, o.res); d != "" {
				j := makeJob(st.seed, o.job)
				t.Violate("differs-from-solo-run", "concurrent/"+d, fmt.Sprintf("job %d (%s) gives a different %s when run concurrently with other jobs than when run alone in a fresh process", o.job, describeJob(j), d),
					map[string]any{"job": o.job, "source": j.Src, "config": describeJob(j), "solo": solo, "concurrent": o.res})
				return
			}
		}
	}
	t.Distinct(fp.String())
	if t.Index < 2 {
		j := makeJob(st.seed, jobs[0][0])
		t.Sample(map[string]any{"stratum": "concurrent-rounds", "goroutines": G, "jobs_per_goroutine": per, "first_job": describeJob(j), "first_job_source": clip(j.Src, 200),
			"start_tickets (goroutine:ticket)": clip(fp.String(), 200)})
	}
}

func describeJob(j *JobSpec) string {
	return fmt.Sprintf("mode=%s regs=%v retype=%q interceptors=%d/%d/%d", j.Mode, j.Regs, j.Retype, j.NTok, j.NStmt, j.NExpr)
}

// shared tree: 16 goroutines compile one tree (own Compiler each) and take debug strings of its nodes
func runC14SharedTree(t *fw.T) {
	r := t.Rand()
	_, rd := randProgram(r)
	po := parse(rd.Src, Mode{})
	if po.Err != nil {
		t.Inconclusive("source not accepted (C02's business)", rd.Src)
		return
	}
	before := spewCfg.Sdump(po.Prog)
	cfgs := []Cfg{allCfgs42[0], allCfgs42[1], allCfgs42[r.IntN(42)], allCfgs42[r.IntN(42)]}
	ref := compileAll(po.Prog, cfgs)
	refDebug := debug.ToString(po.Prog)
	const G = 16
	outs := make([][]string, G)
	dbg := make([]string, G)
	var wg sync.WaitGroup
	start := make(chan struct{})
	for g := 0; g < G; g++ {
		wg.Add(1)
		go func(g int) {
			defer wg.Done()
			defer func() { recover() }()
			<-start
			outs[g] = compileAll(po.Prog, cfgs)
			dbg[g] = debug.ToString(po.Prog)
			for _, s := range po.Prog.Statements {
				_ = debug.ToString(s)
			}
		}(g)
	}
	close(start)
	wg.Wait()
	t.Count("shared_tree_compilations", G*len(cfgs))
	for g := 0; g < G; g++ {
		if !reflect.DeepEqual(outs[g], ref) || dbg[g] != refDebug {
			t.Violate("shared-tree-result-differs", "concurrent compile", "compiling one tree from 16 goroutines gives different results: "+gen.Describe(rd.Src), map[string]any{"source": rd.Src})
			return
		}
	}
	if after := spewCfg.Sdump(po.Prog); after != before {
		t.Violate("compile-modifies-tree", "snapshot", "the tree differs after compilation: "+firstDiff(before, after), map[string]any{"source": rd.Src})
	}
	t.Distinct(rd.Src)
}

// shared builder / shared compiler used by 16 goroutines at once. The statement promises orders of use for
// shared builders and compilers, not concurrent use of ONE value, so this round runs in a sacrificial child
// process: a crash or a race report there is recorded, and only a differing result is judged.
func runC14SharedBuilder(t *fw.T) {
	st := c14(t)
	r := t.Rand()
	ji := r.IntN(nJobs(t))
	exe, _ := os.Executable()
	cmd := exec.Command(exe, "c14shared", "-seed", fmt.Sprint(st.seed), "-index", fmt.Sprint(ji))
	env := os.Environ()
	if base := os.Getenv("VERIF_RACE_LOG"); base != "" {
		env = append(env, "GORACE=halt_on_error=0 log_path="+base+".shared")
	}
	cmd.Env = append(env, "GOMAXPROCS=16")
	out, err := cmd.Output()
	solo, serr := st.soloResult(ji)
	if serr != nil {
		t.Inconclusive("solo reference process failed", serr.Error())
		return
	}
	if err != nil {
		t.Inconclusive("crash while ONE builder / compiler value was used by 16 goroutines (concurrent use of one value is not promised; recorded, not judged)", clip(err.Error()+" "+tailStr(string(out), 200), 300))
		return
	}
	var rep SharedReport
	if json.Unmarshal(out, &rep) != nil {
		t.Inconclusive("shared-value child gave no report", "")
		return
	}
	j := makeJob(st.seed, ji)
	t.Count("shared_builder_parses", len(rep.Builder))
	t.Count("shared_compiler_compilations", rep.CompilerRuns)
	for _, res := range rep.Builder {
		if d := diffResult(solo, res); d != "" {
			t.Violate("differs-from-solo-run", "shared builder/"+d, fmt.Sprintf("16 goroutines building parsers from one builder: job %d (%s) gives a different %s than alone", ji, describeJob(j), d),
				map[string]any{"job": ji, "source": j.Src, "config": describeJob(j)})
			return
		}
	}
	if rep.CompilerDiffers {
		t.Violate("shared-compiler-result-differs", "concurrent compile", "one Compiler used from 16 goroutines gives different results", map[string]any{"source": j.Src})
	}
	t.Distinct(fmt.Sprint("sb", ji))
}

type SharedReport struct {
	Builder         []JobResult `json:"builder"`
	CompilerRuns    int         `json:"compiler_runs"`
	CompilerDiffers bool        `json:"compiler_differs"`
}

// RunSharedChild is the `c14shared` subcommand (sacrificial process).
func RunSharedChild(seed int64, ji int) {
	runtime.GOMAXPROCS(16)
	j := makeJob(seed, ji)
	pb, ts := j.builderTraced()
	const G = 16
	rep := SharedReport{Builder: make([]JobResult, G)}
	var wg sync.WaitGroup
	start := make(chan struct{})
	for g := 0; g < G; g++ {
		wg.Add(1)
		go func(g int) {
			defer wg.Done()
			<-start
			rep.Builder[g] = sharedBuilderRun(pb, ts, j)
		}(g)
	}
	close(start)
	wg.Wait()
	prog, errs := parseOnly(j.builder(), j.Src)
	if len(errs) == 0 {
		k := compiler.New().WithPrettyPrint(compiler.WithTabs()).WithSourceMap()
		want := compiler.New().WithPrettyPrint(compiler.WithTabs()).WithSourceMap().Compile(prog)
		got := make([]compiler.CompileResult, G)
		start2 := make(chan struct{})
		for g := 0; g < G; g++ {
			wg.Add(1)
			go func(g int) {
				defer wg.Done()
				defer func() { recover() }()
				<-start2
				got[g] = sharedCompilerRun(k, prog)
			}(g)
		}
		close(start2)
		wg.Wait()
		rep.CompilerRuns = G
		for g := 0; g < G; g++ {
			if got[g].Code != want.Code || got[g].SourceMap == nil || got[g].SourceMap.Mappings != want.SourceMap.Mappings {
				rep.CompilerDiffers = true
			}
		}
	}
	b, _ := json.Marshal(rep)
	os.Stdout.Write(b)
}

//go:noinline
func sharedBuilderRun(pb *parser.Builder, ts *traceSink, j *JobSpec) JobResult {
	return runJobWith(pb, ts, j)
}

//go:noinline
func sharedCompilerRun(k *compiler.Compiler, prog *ast.Program) compiler.CompileResult {
	return k.Compile(prog)
}

// sequential histories on one goroutine
func runC14Sequential(t *fw.T) {
	st := c14(t)
	r := t.Rand()
	n := 6 + r.IntN(10)
	idxs := make([]int, n)
	for i := range idxs {
		idxs[i] = r.IntN(nJobs(t))
	}
	// builders created first, each used to build several parsers that are run later, interleaved; after the
	// parsers are built the builder is reconfigured (modes toggled, an interceptor and an operator added):
	// parsers built before must not notice
	type pend struct {
		job int
		j   *JobSpec
		p   *parser.Parser
		ts  *traceSink
	}
	var ps []pend
	ok := t.Guard("build parsers", nil, func() {
		for _, ji := range idxs {
			j := makeJob(st.seed, ji)
			var coin *rand.Rand
			if r.IntN(2) == 0 {
				coin = rand.New(rand.NewPCG(r.Uint64(), 14)) // configured in stages, with parsers built in between
				t.Count("builders_configured_in_stages", 1)
			}
			pb, ts := j.builderStaged(coin)
			for k := 0; k < 1+r.IntN(3); k++ {
				ps = append(ps, pend{ji, j, pb.Build(j.Src), ts})
			}
			if r.IntN(2) == 0 {
				pb.WithTolerantMode(!j.Mode.Tolerant).WithSmartSemicolon(!j.Mode.Smart)
				pb.UseStatementInterceptor(func(p *parser.Parser, next func() ast.Statement) ast.Statement { next(); return nil })
				tt := pb.LexerBuilder.RegisterTokenType("late-op")
				pb.RegisterInfixOperator(tt, 5, func(tok token.Token, l ast.Expression, rr func() ast.Expression) ast.Expression { return l })
				t.Count("builders_reconfigured_after_build", 1)
			}
		}
	})
	if !ok {
		return
	}
	r.Shuffle(len(ps), func(a, b int) { ps[a], ps[b] = ps[b], ps[a] })
	var trees []*ast.Program
	for _, p := range ps {
		solo, err := st.soloResult(p.job)
		if err != nil {
			t.Inconclusive("solo reference process failed", err.Error())
			return
		}
		res := finishJob(p.p, p.ts, p.j)
		t.Count("sequential_job_executions", 1)
		if d := diffResult(solo, res); d != "" {
			t.Violate("differs-from-solo-run", "sequential history/"+d, fmt.Sprintf("job %d (%s) gives a different %s after a history of other builds/parses/compilations in the same process (builders reused and reconfigured after Build) than alone", p.job, describeJob(p.j), d),
				map[string]any{"job": p.job, "source": p.j.Src, "config": describeJob(p.j), "solo": solo, "here": res})
			return
		}
	}
	// trees for the compilation histories: plain parses of the jobs' sources that are error-free
	for _, ji := range idxs {
		j := makeJob(st.seed, ji)
		if prog, errs := parseOnly(newBuilder(Mode{}), j.Src); len(errs) == 0 && len(trees) < 4 {
			trees = append(trees, prog)
		}
	}
	for _, prog := range trees {
		bad := false
		t.Guard("compilation history", nil, func() {
			// the same tree under all 42 configurations in a random order, twice; results must repeat
			order := r.Perm(len(allCfgs42))
			first := map[Cfg]string{}
			for round := 0; round < 2 && !bad; round++ {
				for _, ci := range order {
					c := allCfgs42[ci]
					o := compileAll(prog, []Cfg{c})[0]
					if prev, seen := first[c]; seen && prev != o {
						t.Violate("recompilation-differs", cfgClass(c), "compiling the same tree again under "+c.String()+" gives a different result", map[string]any{"source": CfgCompact.Compile(prog).Code})
						bad = true
						break
					}
					first[c] = o
				}
				r.Shuffle(len(order), func(a, b int) { order[a], order[b] = order[b], order[a] })
			}
			for _, c := range AllCodeCfgs() {
				cm := c
				cm.Map = true
				if c.Compile(prog).Code != cm.Compile(prog).Code {
					t.Violate("source-map-changes-code", cfgClass(c), "requesting a source map changes the generated code", map[string]any{"config": c.String()})
					bad = true
				}
			}
			if d, c := debug.ToString(prog), CfgCompact.Compile(prog).Code; d != c {
				t.Violate("debug-string-differs-from-compact", "program", "debug.ToString(program) differs from the compact compilation: "+firstDiff(c, d), nil)
				bad = true
			}
			// ... of a node: every statement of the program (and of its top-level blocks / function bodies) on its own
			var stmts []ast.Statement
			for _, s := range prog.Statements {
				stmts = append(stmts, s)
				switch x := s.(type) {
				case *ast.BlockStatement:
					stmts = append(stmts, x.Statements...)
				case *ast.FunctionDeclaration:
					if x.Body != nil {
						stmts = append(stmts, x.Body.Statements...)
					}
				}
			}
			for _, s := range stmts {
				if walkNil(s) {
					continue
				}
				d, c := debug.ToString(s), CfgCompact.Compile(&ast.Program{Statements: []ast.Statement{s}}).Code
				t.Count("debug_strings_of_single_statements_compared", 1)
				if d != c {
					t.Violate("debug-string-differs-from-compact", "statement", "debug.ToString(statement) differs from the compact compilation of that statement: "+firstDiff(c, d), nil)
					bad = true
					break
				}
			}
			// ... and of trees that hold a plugin's own statement nodes, which write what they like - also blanks, a comment
			// that ends its line, a line break at either end of the output
			if !bad {
				for _, raw := range []string{"//keep\n", "\n/*lead*/ x;", "pragma;\t", " ", "\n", "x;\r\n", "\ty;  "} {
					for _, atEnd := range []bool{true, false} {
						stmts := append([]ast.Statement{}, prog.Statements...)
						if atEnd {
							stmts = append(stmts, &rawStatement{raw})
						} else {
							stmts = append([]ast.Statement{&rawStatement{raw}}, stmts...)
						}
						pp := &ast.Program{Statements: stmts}
						d := debug.ToString(pp)
						t.Count("debug_strings_of_programs_with_plugin_statement_nodes_compared", 1)
						for _, cfg := range []Cfg{CfgCompact, {Map: true}} {
							if c := cfg.Compile(pp).Code; d != c {
								t.Violate("debug-string-differs-from-compact", "program with a plugin's statement node", fmt.Sprintf("debug.ToString(program) differs from the compact compilation (%s) of a program whose plugin node writes %q: %s", cfg, raw, firstDiff(c, d)), map[string]any{"plugin_node_writes": raw, "at_end": atEnd})
								bad = true
							}
						}
						if d1, c1 := debug.ToString(&rawStatement{raw}), CfgCompact.Compile(&ast.Program{Statements: []ast.Statement{&rawStatement{raw}}}).Code; d1 != c1 {
							t.Violate("debug-string-differs-from-compact", "plugin's statement node", fmt.Sprintf("debug.ToString(node) differs from the compact compilation of a plugin node that writes %q: %s", raw, firstDiff(c1, d1)), nil)
							bad = true
						}
						if bad {
							break
						}
					}
					if bad {
						break
					}
				}
			}
		})
		if bad {
			return
		}
		t.Count("trees_recompiled_under_42_configurations", 1)
	}
	// ONE Compiler value compiles many trees one after the other: every result equals a fresh compiler's
	if len(trees) > 0 {
		for _, c := range []Cfg{allCfgs42[r.IntN(42)], {Pretty: true, Tabs: true, NoSemi: true, Map: true}, {Pretty: true, Spaces: 2, Map: true}} {
			k := c.compiler()
			for round := 0; round < 2*len(trees)+1; round++ {
				prog := trees[r.IntN(len(trees))]
				var got, want compiler.CompileResult
				if !t.Guard("reused compiler", nil, func() { got = k.Compile(prog); want = c.Compile(prog) }) {
					return
				}
				t.Count("compilations_on_reused_compilers", 1)
				same := got.Code == want.Code && (got.SourceMap == nil) == (want.SourceMap == nil)
				if same && got.SourceMap != nil {
					same = got.SourceMap.Mappings == want.SourceMap.Mappings && reflect.DeepEqual(got.SourceMap.Names, want.SourceMap.Names)
				}
				if !same {
					t.Violate("reused-compiler-differs", cfgClass(c), fmt.Sprintf("a Compiler (%s) that already compiled other trees gives a different result than a fresh one (compilation #%d)", c, round+1),
						map[string]any{"config": c.String(), "fresh_code": want.Code, "reused_code": got.Code})
					return
				}
			}
		}
	}
	// ONE lexer builder serving several parser builders with different modes (and one of them reconfigured later): each
	// parser builder behaves like one that has its lexer builder to itself
	{
		inputs := []string{"let s = \"abc", "let t = `x\ny", "a b\n{ c", "f(a\n(b))\n[c]", "let q = 'it", "x = 1\n(y)", "ok(1)"}
		for ji := 0; ji < 2 && ji < len(idxs); ji++ {
			inputs = append(inputs, makeJob(st.seed, idxs[ji]).Src)
		}
		bad := false
		t.Guard("parser builders sharing a lexer builder", nil, func() {
			lb := lexer.NewBuilder()
			bs := []*parser.Builder{
				parser.NewBuilder(lb).WithTolerantMode(true),
				parser.NewBuilder(lb),
				parser.NewBuilder(lb).WithSmartSemicolon(true),
				parser.NewBuilder(lb).WithTolerantMode(true).WithSmartSemicolon(true),
			}
			ms := []Mode{{Tolerant: true}, {}, {Smart: true}, {Tolerant: true, Smart: true}}
			for round := 0; round < 2 && !bad; round++ {
				for _, bi := range r.Perm(len(bs)) {
					src := inputs[r.IntN(len(inputs))]
					p := bs[bi].Build(src)
					prog, _ := p.ParseProgram()
					want := parse(src, ms[bi])
					t.Count("parses_by_builders_sharing_a_lexer_builder", 1)
					if !reflect.DeepEqual(p.Errors(), want.Errors) || !reflect.DeepEqual(prog, want.Prog) {
						t.Violate("shared-lexer-builder-leaks", "modes", fmt.Sprintf("a %s parser builder that shares its lexer builder with parser builders of other modes parses %q differently from one that has its own lexer builder", ms[bi], clip(src, 80)),
							map[string]any{"source": src, "mode": ms[bi].String(), "errors": p.Errors(), "errors_with_own_lexer_builder": want.Errors})
						bad = true
						break
					}
				}
				// a sibling is switched back to strict: the others keep their modes
				bs[0].WithTolerantMode(false)
				ms[0] = Mode{}
			}
		})
		if bad {
			return
		}
	}
	// compilers configured from ONE option list that the caller goes on using (appends to it, overwrites an entry for
	// the next compiler): each compiler keeps the configuration it was given when it was created
	if len(trees) > 0 {
		var ks []*compiler.Compiler
		wantCfg := []Cfg{{Pretty: true, Spaces: 2}, {Pretty: true, Spaces: 2, NoSemi: true}, {Pretty: true, Tabs: true}, {Pretty: true, Tabs: true, NoSemi: true}}
		if !t.Guard("compilers from a shared option list", nil, func() {
			opts := make([]compiler.PrettyPrintOption, 0, 4)
			opts = append(opts, compiler.WithSpaces(2))
			ks = append(ks, compiler.New().WithPrettyPrint(opts...))
			opts2 := append(opts, compiler.WithSemi(false)) // same backing array
			ks = append(ks, compiler.New().WithPrettyPrint(opts2...))
			opts[0] = compiler.WithTabs()
			ks = append(ks, compiler.New().WithPrettyPrint(opts...))
			opts3 := append(opts, compiler.WithSemi(true))
			opts3[1] = compiler.WithSemi(false)
			ks = append(ks, compiler.New().WithPrettyPrint(opts3...))
			opts3[0], opts3[1] = compiler.WithSpaces(7), compiler.WithSemi(true)
		}) {
			return
		}
		for _, i := range r.Perm(len(ks)) {
			prog := trees[r.IntN(len(trees))]
			var got, want string
			if !t.Guard("compile", nil, func() { got = ks[i].Compile(prog).Code; want = wantCfg[i].Compile(prog).Code }) {
				return
			}
			t.Count("compilers_created_from_a_shared_option_list", 1)
			if got != want {
				t.Violate("compiler-configuration-aliased", "option list", fmt.Sprintf("compiler #%d was created with the options %s from a list the caller went on using for other compilers; it no longer prints like a compiler created with exactly those options", i+1, wantCfg[i]),
					map[string]any{"expected_config": wantCfg[i].String(), "expected_code": want, "code": got})
				return
			}
		}
	}
	// a Compiler that is configured again (WithPrettyPrint called a second time with other options) prints like a fresh
	// compiler with the last configuration: nothing of the earlier one survives
	if len(trees) > 0 {
		type conf struct {
			opts []compiler.PrettyPrintOption
			cfg  Cfg
		}
		confs := []conf{
			{[]compiler.PrettyPrintOption{compiler.WithTabs(), compiler.WithSemi(false)}, Cfg{Pretty: true, Tabs: true, NoSemi: true}},
			{[]compiler.PrettyPrintOption{compiler.WithSpaces(4)}, Cfg{Pretty: true, Spaces: 4}},
			{[]compiler.PrettyPrintOption{compiler.WithSemi(false)}, Cfg{Pretty: true, Spaces: 2, NoSemi: true}},
			{nil, Cfg{Pretty: true, Spaces: 2}},
			{[]compiler.PrettyPrintOption{compiler.WithSpaces(1), compiler.WithSemi(true)}, Cfg{Pretty: true, Spaces: 1}},
		}
		k := compiler.New()
		for _, ci := range r.Perm(len(confs)) {
			c := confs[ci]
			prog := trees[r.IntN(len(trees))]
			var got, want string
			if !t.Guard("reconfigured compiler", nil, func() {
				k = k.WithPrettyPrint(c.opts...)
				got = k.Compile(prog).Code
				want = c.cfg.Compile(prog).Code
			}) {
				return
			}
			t.Count("compilations_on_reconfigured_compilers", 1)
			if got != want {
				t.Violate("reconfigured-compiler-differs", c.cfg.String(), fmt.Sprintf("a Compiler configured again with WithPrettyPrint (now %s) prints differently from a fresh compiler with those options: %s", c.cfg, firstDiff(want, got)), nil)
				return
			}
		}
	}
	// a tool edits the trivia of one tree in place (a comment-rewriting pass): trees from other parsers - parsed before or
	// after - are their own
	{
		src := "a\nb\n// note\nc\n\n\nd = 1\n{\n  e\n}\n"
		bad := false
		t.Guard("trivia edited in place", nil, func() {
			t1 := parse(src, Mode{}).Prog
			before := CfgPretty.Compile(t1).Code
			t2 := parse(src, Mode{}).Prog
			n := editTriviaInPlace(t2)
			t.Count("trivia_entries_edited_in_place_on_another_tree", n)
			t3 := parse(src, Mode{}).Prog
			if after := CfgPretty.Compile(t1).Code; after != before {
				t.Violate("trees-share-trivia-storage", "earlier tree", "editing the leading comments of one tree in place changed the pretty output of a tree parsed earlier by another parser: "+firstDiff(before, after), nil)
				bad = true
				return
			}
			if fresh := CfgPretty.Compile(t3).Code; fresh != before {
				t.Violate("trees-share-trivia-storage", "later tree", "editing the leading comments of one tree in place changed the pretty output of a tree parsed afterwards: "+firstDiff(before, fresh), nil)
				bad = true
			}
		})
		if bad {
			return
		}
	}
	// a caller completes the source maps it was given (File, Sources, SourcesContent, as the README shows): what it
	// writes into one result shows in no other result, before or after - also for programs without any mapping (empty
	// source, comments only)
	{
		bad := false
		t.Guard("caller fills in source maps", nil, func() {
			srcs := []string{"", "// only a comment\n", "\n\n", "let a = 1"}
			var maps []*sourcemap.SourceMap
			for round := 0; round < 2 && !bad; round++ {
				for i, src := range srcs {
					prog, errs := parseOnly(newBuilder(Mode{}), src)
					if len(errs) > 0 {
						continue
					}
					res := Cfg{Map: true, Pretty: (i+round)%2 == 0, Spaces: 2}.Compile(prog)
					t.Count("source_maps_completed_by_the_caller", 1)
					if res.SourceMap == nil {
						continue
					}
					if res.SourceMap.File != "" || len(res.SourceMap.Sources) != 0 || len(res.SourceMap.SourcesContent) != 0 || res.SourceMap.SourceRoot != "" {
						t.Violate("handed-out-result-rewritten", "fresh source map carries another caller's fields", fmt.Sprintf("a freshly returned source map (source %q) already has File=%q Sources=%v: fields that a caller wrote into an earlier result", src, res.SourceMap.File, res.SourceMap.Sources), nil)
						bad = true
						break
					}
					for _, m := range maps {
						if m == res.SourceMap {
							t.Violate("handed-out-result-rewritten", "two compilations return the same source map object", fmt.Sprintf("two compilations returned the same *SourceMap (source %q)", src), nil)
							bad = true
						}
					}
					res.SourceMap.File = fmt.Sprintf("out%d.js", i)
					res.SourceMap.Sources = []string{fmt.Sprintf("in%d.xjs", i)}
					res.SourceMap.SourcesContent = []string{src}
					maps = append(maps, res.SourceMap)
				}
			}
		})
		if bad {
			return
		}
	}
	// a plugin builds and runs a parser from the SAME builder inside a token interceptor while the outer parser is being
	// built (its first tokens are read during Build): one builder builds independent parsers, also re-entrantly. The
	// nested build runs on its own goroutine; meanwhile this goroutine completes plain parses. If it completes 20 000 of
	// them and the nested build still has not returned, the build is blocked (logical clock: work done elsewhere).
	{
		done := make(chan string, 1)
		go func() {
			defer func() {
				if rec := recover(); rec != nil {
					done <- fmt.Sprint("panic: ", rec)
				}
			}()
			lb := lexer.NewBuilder()
			pb := parser.NewBuilder(lb)
			depth := 0
			inner := ""
			lb.UseTokenInterceptor(func(l *lexer.Lexer, next func() token.Token) token.Token {
				if depth == 0 && l.CurrentChar == '`' {
					depth++
					p := pb.Build("1 + x")
					prog, _ := p.ParseProgram()
					inner = CfgCompact.Compile(prog).Code
					depth--
				}
				return next()
			})
			p := pb.Build("`t` + a\nb")
			prog, err := p.ParseProgram()
			if err != nil {
				done <- "error: " + err.Error()
				return
			}
			done <- inner + "|" + CfgCompact.Compile(prog).Code
		}()
		var got string
		finished := false
		for n := 0; n < 20000 && !finished; n++ {
			select {
			case got = <-done:
				finished = true
			default:
				parse("let canary = 1 + 2", Mode{})
				if n%64 == 0 {
					runtime.Gosched()
				}
			}
		}
		t.Count("nested_builds_from_a_token_interceptor", 1)
		if !finished {
			t.Violate("nested-build-blocked", "token interceptor during Build", "a parser built from the same builder inside a token interceptor, while the outer Build reads its first tokens, did not return although 20000 plain parses completed on another goroutine meanwhile", nil)
			return
		}
		if want := "1+x;|`t`+a;b;"; got != want {
			t.Violate("nested-build-result", "token interceptor during Build", fmt.Sprintf("nested build inside a token interceptor: got %q, want %q", got, want), nil)
			return
		}
	}
	// results that were handed out stay what they were: later compilations (same compiler or others) do not rewrite them
	if len(trees) > 0 {
		type kept struct {
			res   compiler.CompileResult
			code  string
			maps  string
			names []string
		}
		var keep []kept
		ok := t.Guard("keep results", nil, func() {
			k := Cfg{Pretty: true, Spaces: 2, Map: true}.compiler()
			for round := 0; round < 4; round++ {
				c := Cfg{Map: true, Pretty: round%2 == 1, Spaces: 2}
				var res compiler.CompileResult
				if round < 2 {
					res = k.Compile(trees[r.IntN(len(trees))])
				} else {
					res = c.Compile(trees[r.IntN(len(trees))])
				}
				kp := kept{res: res, code: res.Code}
				if res.SourceMap != nil {
					kp.maps = res.SourceMap.Mappings
					kp.names = append([]string{}, res.SourceMap.Names...)
				}
				keep = append(keep, kp)
			}
		})
		if !ok {
			return
		}
		for i, kp := range keep {
			t.Count("handed_out_results_rechecked_after_later_compilations", 1)
			same := kp.res.Code == kp.code
			if same && kp.res.SourceMap != nil {
				same = kp.res.SourceMap.Mappings == kp.maps && reflect.DeepEqual(kp.res.SourceMap.Names, kp.names)
			}
			if !same {
				t.Violate("handed-out-result-rewritten", "source map", fmt.Sprintf("compile result #%d (code, mappings or names) changed after later compilations", i+1), map[string]any{"names_then": kp.names, "names_now": kp.res.SourceMap.Names})
				return
			}
		}
	}
	// sources whose literals and comments hold bytes that are not UTF-8 (a Latin-1 file, a stray continuation byte, an
	// encoded surrogate, a character cut off by the closing quote) next to ordinary non-ASCII text: requesting a source
	// map does not change the generated code, and compiling again repeats it
	{
		srcs := []string{
			"let s = \"caf\xe9\" + 'na\xefve'\nprint(s)",
			"let t = `r\xe9sum\xe9\n \x80\xbf`; t = 'a\xff\xfeb' // c\xf4t\xe9\nf(t)",
			"x = \"\xed\xa0\x80\" + '\xc3' + \"\xe2\x82\" + `\xf0\x9f\x98`\n{ y = '\xc0\xaf' }",
			"let u = 'é漢\U0001F600' + \" \" + ` ÿ`\n// é\nprint(u)",
		}
		src := srcs[r.IntN(len(srcs))]
		bad := false
		t.Guard("sources with bytes that are not UTF-8", func() map[string]any { return map[string]any{"source": src} }, func() {
			prog, errs := parseOnly(newBuilder(Mode{}), src)
			if len(errs) > 0 {
				t.Count("byte_hostile_sources_not_accepted", 1)
				return
			}
			for _, c := range AllCodeCfgs() {
				cm := c
				cm.Map = true
				plain, again := c.Compile(prog).Code, c.Compile(prog).Code
				t.Count("compilations_of_sources_with_non_utf8_bytes_compared_with_and_without_source_map", 1)
				if withMap := cm.Compile(prog).Code; plain != withMap {
					t.Violate("source-map-changes-code", cfgClass(c)+"/non-UTF-8 bytes", fmt.Sprintf("requesting a source map changes the generated code of a source with non-UTF-8 / non-ASCII bytes in literals: %s", firstDiff(plain, withMap)), map[string]any{"source": src, "config": c.String()})
					bad = true
					return
				}
				if plain != again {
					t.Violate("recompilation-differs", cfgClass(c)+"/non-UTF-8 bytes", "compiling the same tree again gives a different result", map[string]any{"source": src, "config": c.String()})
					bad = true
					return
				}
			}
			if d, c := debug.ToString(prog), CfgCompact.Compile(prog).Code; d != c {
				t.Violate("debug-string-differs-from-compact", "program/non-UTF-8 bytes", "debug.ToString(program) differs from the compact compilation: "+firstDiff(c, d), map[string]any{"source": src})
				bad = true
			}
		})
		if bad {
			return
		}
	}
	// a transformation pass edits a tree between two compilations by the SAME compiler, and the caller completes the
	// first result's map in between: the second result is that of a fresh compiler on the edited tree and a map of its own
	{
		bad := false
		c := Cfg{Map: true, Pretty: r.IntN(2) == 0, Spaces: 2}
		t.Guard("tree edited between two compilations by one compiler", nil, func() {
			prog, errs := parseOnly(newBuilder(Mode{}), "let total = 1\nf(total + 2)\n")
			other, _ := parseOnly(newBuilder(Mode{}), "g(3)")
			if len(errs) > 0 {
				return
			}
			k := c.compiler()
			r1 := k.Compile(prog)
			if r1.SourceMap != nil {
				r1.SourceMap.File, r1.SourceMap.Sources = "first.js", []string{"first.xjs"}
			}
			for step := 0; step < 3 && !bad; step++ {
				switch step {
				case 0:
					prog.Statements[0].(*ast.LetStatement).Name.Value = "sum" // a renaming pass
				case 1:
					prog.Statements = append(prog.Statements, other.Statements...) // a statement appended
				case 2:
					prog.Statements = prog.Statements[1:] // a statement removed
				}
				got, want := k.Compile(prog), c.Compile(prog)
				t.Count("compilations_of_a_tree_edited_since_the_same_compiler_last_compiled_it", 1)
				same := got.Code == want.Code && (got.SourceMap == nil) == (want.SourceMap == nil)
				if same && got.SourceMap != nil {
					same = got.SourceMap.Mappings == want.SourceMap.Mappings && reflect.DeepEqual(got.SourceMap.Names, want.SourceMap.Names)
				}
				if !same {
					t.Violate("reused-compiler-differs", cfgClass(c)+"/tree edited in between", fmt.Sprintf("a Compiler (%s) that compiled a tree before gives, after the tree was edited in place (step %d), a different result than a fresh compiler: %s", c, step, firstDiff(want.Code, got.Code)), map[string]any{"fresh_code": want.Code, "reused_code": got.Code})
					bad = true
					return
				}
				if got.SourceMap != nil && (got.SourceMap == r1.SourceMap || got.SourceMap.File != "" || len(got.SourceMap.Sources) != 0) {
					t.Violate("handed-out-result-rewritten", "second compilation of the same program returns the first result's source map", "the caller completed the map of the first compilation (File, Sources); the next compilation of the same program by the same compiler returned a map that carries those fields", nil)
					bad = true
					return
				}
				if got.SourceMap != nil {
					got.SourceMap.File = "later.js"
				}
			}
		})
		if bad {
			return
		}
	}
	// programs whose compact output is one line of 40-120 KB (thousands of statements, nested blocks, one huge
	// expression): the debug string is the compact compilation, whatever the size
	if t.Index%4 == 0 {
		var sb strings.Builder
		n := 2500 + r.IntN(4000)
		switch r.IntN(3) {
		case 0:
			for i := 0; i < n; i++ {
				fmt.Fprintf(&sb, "f(aaaa, %d);", i)
			}
		case 1:
			sb.WriteString("function big() {")
			for i := 0; i < n; i++ {
				fmt.Fprintf(&sb, "if (c) { let v%d = %d } ", i, i)
			}
			sb.WriteString("}")
		default:
			sb.WriteString("let z = 0")
			for i := 0; i < 4*n; i++ {
				sb.WriteString(" + a")
			}
			sb.WriteString("\nprint(z)\n")
			for i := 0; i < n; i++ {
				fmt.Fprintf(&sb, "q%d = %d\n", i, i)
			}
		}
		src := sb.String()
		bad := false
		t.Guard("debug string of a large program", nil, func() {
			prog, errs := parseOnly(newBuilder(Mode{}), src)
			if len(errs) > 0 {
				return
			}
			d, c := debug.ToString(prog), CfgCompact.Compile(prog).Code
			t.Count("debug_strings_of_large_programs_compared", 1)
			t.Feature("size of compact output compared with the debug string (KB)", fmt.Sprint(len(c)/1024/10*10))
			if d != c {
				t.Violate("debug-string-differs-from-compact", "program/large", fmt.Sprintf("debug.ToString(program) differs from the compact compilation of a program whose output has %d bytes: %s", len(c), firstDiff(c, d)), map[string]any{"source_prefix": clip(src, 200), "source_bytes": len(src)})
				bad = true
				return
			}
			if cm := (Cfg{Map: true}).Compile(prog).Code; cm != c {
				t.Violate("source-map-changes-code", "compact/large", "requesting a source map changes the generated code of a large program: "+firstDiff(c, cm), nil)
				bad = true
			}
		})
		if bad {
			return
		}
	}
	checkLateRegistrations(t, r)
	checkForeignOperatorLevels(t, r)
	checkPackageTables(t)
	t.Distinct(fmt.Sprint("seq", idxs))
}

// atBuilder: a parser builder whose lexer issues '@' as a registered token type.
func atBuilder() (*parser.Builder, token.Type) {
	lb := lexer.NewBuilder()
	at := lb.RegisterTokenType("op@")
	lb.UseTokenInterceptor(func(l *lexer.Lexer, next func() token.Token) token.Token {
		if l.CurrentChar == '@' {
			tok := l.NewToken(at, "@")
			l.ReadChar()
			return tok
		}
		return next()
	})
	return parser.NewBuilder(lb), at
}

func outcome(p *parser.Parser) string {
	prog, err := p.ParseProgram()
	var sb strings.Builder
	for _, e := range p.Errors() {
		fmt.Fprintf(&sb, "%s@%v;", e.Message, e.Range.Start)
	}
	if err == nil && prog != nil {
		sb.WriteString(" => " + CfgCompact.Compile(prog).Code)
	}
	return sb.String()
}

// checkLateRegistrations: one builder builds many independent parsers - a parser that was built (not yet run) before
// the builder got another operator, interceptor or mode, and before the builder built further parsers, gives the result
// of a parser built from a builder that never saw the later calls. The texts use the tokens the late operators sit on.
func checkLateRegistrations(t *fw.T, r *rand.Rand) {
	srcs := []string{"a\n!b\nc", "x = a @ b", "f(a)\n@b", "a !\nb", "let k = 1 @ 2 ! 3", "p % q\n!r", "a ! b", "n!", "@a"}
	src := srcs[r.IntN(len(srcs))]
	role := r.IntN(5)
	t.Guard("late registration", func() map[string]any { return map[string]any{"source": src, "late_role": role} }, func() {
		refB, _ := atBuilder()
		want := outcome(refB.Build(src))
		pb, at := atBuilder()
		early := []*parser.Parser{pb.Build(src), pb.Build(src)}
		bin := func(tok token.Token, l ast.Expression, rr func() ast.Expression) ast.Expression {
			return &ast.BinaryExpression{Token: tok, Left: l, Operator: tok.Literal, Right: rr()}
		}
		post := func(tok token.Token, l ast.Expression) ast.Expression {
			return &cPostfix{Tok: tok, Op: tok.Literal, X: l}
		}
		pre := func(tok token.Token, rr func() ast.Expression) ast.Expression {
			return &cPrefix{Tok: tok, Op: tok.Literal, X: rr()}
		}
		switch role {
		case 0:
			pb.RegisterInfixOperator(token.NOT, 4+r.IntN(8), bin)
		case 1:
			pb.RegisterPostfixOperator(token.NOT, post)
		case 2:
			pb.RegisterInfixOperator(at, 4+r.IntN(8), bin)
		case 3:
			pb.RegisterPostfixOperator(at, post)
		default:
			pb.RegisterPrefixOperator(at, pre)
			pb.RegisterInfixOperator(at, 9, bin)
		}
		// the builder goes on building and its later parsers run first
		for i := 0; i < 2; i++ {
			pb.Build("u ! v @ w\n@z!").ParseProgram()
		}
		for i, p := range early {
			got := outcome(p)
			t.Count("parsers_run_after_their_builder_got_more_operators_and_built_again", 1)
			if got != want {
				t.Violate("later-registration-reaches-built-parser", fmt.Sprintf("role %d", role), fmt.Sprintf("a parser built before its builder registered another operator and built further parsers gives %q, a parser of an identical builder without that history gives %q (source %q, parser #%d)", clip(got, 200), clip(want, 200), src, i+1),
					map[string]any{"source": src, "late_role": role})
				return
			}
		}
	})
}

// checkForeignOperatorLevels: a tree with operator nodes of a plugin (ast.BinaryExpression carrying the plugin's token)
// prints the same before and after an unrelated builder - whose lexer builder hands out the same dynamic token ids -
// registers operators at other levels and is used.
func checkForeignOperatorLevels(t *fw.T, r *rand.Rand) {
	bin := func(tok token.Token, l ast.Expression, rr func() ast.Expression) ast.Expression {
		return &ast.BinaryExpression{Token: tok, Left: l, Operator: "??", Right: rr()}
	}
	t.Guard("foreign operator levels", nil, func() {
		pa, at := atBuilder()
		la := 2 + r.IntN(12)
		pa.RegisterInfixOperator(at, la, bin)
		prog, err := pa.Build("let r = a @ b + c * d\nr = (a @ b) @ c - (d + e @ f)\ng(a @ -b, !c @ d)").ParseProgram()
		if err != nil {
			return
		}
		shot := func() string {
			return strings.Join(compileAll(prog, []Cfg{CfgCompact, CfgPretty, CfgPrettyTabN, {Map: true}}), "\x00") + "\x00" + debug.ToString(prog)
		}
		before := shot()
		pb2, at2 := atBuilder()
		lb := 2 + r.IntN(12)
		pb2.RegisterInfixOperator(at2, lb, bin)
		pb2.RegisterPrefixOperator(at2, func(tok token.Token, rr func() ast.Expression) ast.Expression {
			return &cPrefix{Tok: tok, Op: "@", X: rr()}
		})
		if p2, err := pb2.Build("x = @a @ b * c").ParseProgram(); err == nil {
			CfgPretty.Compile(p2)
		}
		t.Count("trees_with_plugin_operator_nodes_reprinted_after_foreign_registrations", 1)
		if after := shot(); after != before {
			t.Violate("recompilation-differs", "after another builder registered the same token id", fmt.Sprintf("a tree with ast.BinaryExpression nodes of a registered operator (level %d) prints differently after an unrelated builder registered an operator with the same dynamic token id at level %d: %s", la, lb, firstDiff(before, after)), map[string]any{"level": la, "foreign_level": lb})
		}
	})
}

// editTriviaInPlace overwrites every entry of every token's LeadingComments in the tree (no slice is re-allocated).
func editTriviaInPlace(prog *ast.Program) int {
	n := 0
	seen := map[uintptr]bool{}
	tokT := reflect.TypeOf(token.Token{})
	var walk func(v reflect.Value)
	walk = func(v reflect.Value) {
		switch v.Kind() {
		case reflect.Interface:
			if !v.IsNil() {
				walk(v.Elem())
			}
		case reflect.Ptr:
			if v.IsNil() || seen[v.Pointer()] {
				return
			}
			seen[v.Pointer()] = true
			walk(v.Elem())
		case reflect.Struct:
			if v.Type() == tokT {
				lc := v.FieldByName("LeadingComments")
				for i := 0; i < lc.Len(); i++ {
					if lc.Index(i).CanSet() {
						lc.Index(i).SetString("// rewritten by a tool")
						n++
					}
				}
				return
			}
			for i := 0; i < v.NumField(); i++ {
				if v.Type().Field(i).IsExported() {
					walk(v.Field(i))
				}
			}
		case reflect.Slice:
			for i := 0; i < v.Len(); i++ {
				walk(v.Index(i))
			}
		}
	}
	walk(reflect.ValueOf(prog))
	return n
}

func checkPackageTables(t *fw.T) {
	st := c14(t)
	if !reflect.DeepEqual(token.Keywords, st.kwSnap) {
		t.Violate("package-table-changed", "token.Keywords", "the keyword table differs from its snapshot at process start", nil)
	}
	if cur, ok := hookBuiltinPrecs(); ok {
		t.Count("hook_package_table_checks", 1)
		if !reflect.DeepEqual(cur, st.precSnap) {
			t.Violate("package-table-changed", "binding powers", "the package-level binding-power table differs from its snapshot at process start", nil)
		}
	}
}

var raceHeader = regexp.MustCompile(`(?m)^WARNING: DATA RACE`)
var frameRe = regexp.MustCompile(`(?m)^  (\S+)\(\)`)

// collectRaces parses the race detector's log files of this process.
func collectRaces(w *fw.Worker) {
	logBase := os.Getenv("VERIF_RACE_LOG")
	if logBase == "" {
		return
	}
	files, _ := filepath.Glob(logBase + ".*")
	sharedFiles := map[string]bool{}
	if sf, _ := filepath.Glob(logBase + ".shared.*"); sf != nil {
		for _, f := range sf {
			sharedFiles[f] = true
		}
	}
	seen := map[string]string{}
	total := 0
	for _, f := range files {
		b, err := os.ReadFile(f)
		if err != nil {
			continue
		}
		blocks := strings.Split(string(b), "==================")
		for _, blk := range blocks {
			if !raceHeader.MatchString(blk) {
				continue
			}
			total++
			// key: first xjs frame of each of the two accesses
			var xf []string
			for _, m := range frameRe.FindAllStringSubmatch(blk, -1) {
				if strings.Contains(m[1], "xjslang/xjs/") {
					xf = append(xf, strings.TrimPrefix(m[1], "github.com/xjslang/xjs/"))
				}
			}
			key := "outside xjs"
			if len(xf) > 0 {
				key = xf[0]
				for _, x := range xf[1:] {
					if x != xf[0] {
						key += " / " + x
						break
					}
				}
			}
			where := "job rounds"
			if sharedFiles[f] || strings.Contains(blk, "sharedBuilderRun") || strings.Contains(blk, "sharedCompilerRun") {
				where = "shared builder/compiler rounds"
			}
			if _, ok := seen[where+"|"+key]; !ok {
				if len(blk) > 3000 {
					blk = blk[:3000]
				}
				seen[where+"|"+key] = blk
			}
		}
	}
	w.Res.Counters["race_reports"] += int64(total)
	keys := make([]string, 0, len(seen))
	for k := range seen {
		keys = append(keys, k)
	}
	sort.Strings(keys)
	for _, k := range keys {
		p := strings.SplitN(k, "|", 2)
		if p[0] == "shared builder/compiler rounds" {
			// concurrent use of ONE builder / compiler is not promised by the statement (only orders of use):
			// recorded, a violation only together with a differing result (checked in the round itself)
			w.Res.Inconclusive["data race reported while one builder/compiler value was used concurrently (recorded, not judged): "+p[1]]++
			continue
		}
		w.Res.Violations = append(w.Res.Violations, &fw.Violation{Property: "C14", Clause: "data-race", Key: p[1], Stratum: "race-log", Index: 0, Seed: w.Seed, Tier: w.Tier, NoReplay: true,
			What: "the race detector reports a data race between independent instances: " + p[1], Witness: map[string]any{"report": seen[k]}})
	}
}

func init() {
	fw.Register(&fw.Property{
		ID: "C14", Level: "exploration", Serial: true, Race: true,
		Rule: "the worker is built with -race and runs with GOMAXPROCS=16. Jobs = (builder configuration incl. registered operators that reuse the same characters with different meanings, interceptors, re-typing token interceptor, mode; input; compile configurations), derived from (seed, index). Every job's result (tree incl. deep dump, errors, outputs+maps, debug string) is compared with its solo reference = the same job run as the only job of a fresh process. Rounds: 16 goroutines x 6 jobs concurrently; 16 goroutines compiling one shared tree (deep dump before/after); one builder / one Compiler used by 16 goroutines; sequential histories (parsers built first and run later interleaved, same tree under all 42 configurations in random orders twice, map on/off, debug string = compact). Package tables (token.Keywords, hook: binding powers) compared with process-start snapshots. Any DATA RACE report in xjs code between independent instances or on a shared tree is a violation. distinct = distinct job-start orders / histories.",
		Assumptions: []string{
			"interleavings are chosen by the Go scheduler on 16 cores; xjs has no internal suspension points to steer",
			"a race reported while ONE builder or ONE Compiler value is used concurrently is recorded but judged only together with a differing result (the quantifier promises orders of use for shared builders/compilers, concurrent use for independent instances and shared trees)",
		},
		Setup: func(w *fw.Worker) {
			runtime.GOMAXPROCS(16)
			st := &c14State{solo: map[int]JobResult{}, seed: w.Seed, orders: map[string]bool{}}
			st.plain = os.Getenv("XJSVERIF_PLAIN")
			if st.plain == "" {
				st.plain = filepath.Join(fw.OutRoot(), ".build", "xjsverif")
			}
			st.kwSnap = map[string]token.Type{}
			for k, v := range token.Keywords {
				st.kwSnap[k] = v
			}
			st.precSnap, _ = hookBuiltinPrecs()
			w.State["c14"] = st
		},
		Teardown: func(w *fw.Worker) {
			st := w.State["c14"].(*c14State)
			w.Res.Counters["distinct_job_start_orders"] = int64(len(st.orders))
			w.Res.Counters["solo_reference_processes"] = int64(len(st.solo))
			collectRaces(w)
		},
		Strata: []*fw.Stratum{
			{Name: "concurrent-rounds", Quick: 30, Thorough: 500, Run: runC14Round},
			{Name: "shared-tree", Quick: 30, Thorough: 300, Run: runC14SharedTree},
			{Name: "shared-builder-and-compiler", Quick: 20, Thorough: 200, Run: runC14SharedBuilder},
			{Name: "sequential-histories", Quick: 30, Thorough: 300, Run: runC14Sequential},
		},
	})
}

// rawStatement is a statement node of a plugin's own: it writes its text as it is.
type rawStatement struct{ Text string }

func (n *rawStatement) WriteTo(cw *ast.CodeWriter) { cw.WriteString(n.Text) }
