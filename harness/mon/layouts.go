package mon

import (
	"math/rand/v2"

	"verif/gen"
)

type NamedLayout struct {
	Name string
	E    gen.EmitOpts
	L    gen.Layout
}

// stdLayouts are the fixed layouts every tree is rendered in; RandomLayout adds seed-chosen ones.
var stdLayouts = []NamedLayout{
	{"minimal;", gen.EmitOpts{Quote: 0}, gen.Layout{Semi: 1, Space: 0}},
	{"conventional", gen.EmitOpts{Quote: 1}, gen.Layout{Semi: 1, Space: 1, StmtNL: 1}},
	{"asi-newlines", gen.EmitOpts{Quote: 2}, gen.Layout{Semi: 0, Space: 1, StmtNL: 1}},
	{"redundant-parens", gen.EmitOpts{Parens: 0.3, Quote: 2}, gen.Layout{Semi: 0.5, Space: 1, StmtNL: 0.7}},
	{"newline-everywhere", gen.EmitOpts{Quote: 2}, gen.Layout{Semi: 0.3, Space: 2, NL: 0.7, StmtNL: 0.9, Blank: 0.2, LeadingBlank: true, SemiNL: 0.25}},
	{"comments", gen.EmitOpts{Quote: 2}, gen.Layout{Semi: 0.3, Space: 2, NL: 0.4, StmtNL: 0.9, Comment: 0.4, LeadingBlank: true, SemiNL: 0.15}},
	{"crlf", gen.EmitOpts{Quote: 2, Parens: 0.1}, gen.Layout{Semi: 0.3, Space: 2, NL: 0.5, StmtNL: 0.9, Comment: 0.2, CRLF: true, Blank: 0.2}},
	{"minimal-asi", gen.EmitOpts{Quote: 0}, gen.Layout{Semi: 0, Space: 0, StmtNL: 0.5, NoTrailingNL: true}},
}

func randomLayout(r *rand.Rand) NamedLayout {
	return NamedLayout{"random", gen.EmitOpts{Parens: []float64{0, 0, 0.1, 0.4}[r.IntN(4)], Quote: r.IntN(3)},
		gen.Layout{Semi: r.Float64(), Space: r.IntN(3), NL: r.Float64() * 0.8, StmtNL: r.Float64(), Comment: r.Float64() * 0.4,
			CRLF: r.IntN(4) == 0, Blank: r.Float64() * 0.3, LeadingBlank: r.IntN(2) == 0, NoTrailingNL: r.IntN(2) == 0, SemiNL: []float64{0, 0, 0.2, 0.6}[r.IntN(4)]}}
}
