package mon

import (
	"fmt"
	"math/rand/v2"
	"reflect"
	"sort"
	"strings"
	"verif/jsstr"

	"github.com/xjslang/xjs/ast"
	"github.com/xjslang/xjs/lexer"
	"github.com/xjslang/xjs/parser"
	"github.com/xjslang/xjs/token"

	"verif/fw"
	"verif/gen"
	"verif/norm"
)

// ---- C05: custom operators and token types integrate consistently ---------

// custom node types a plugin would define
type cInfix struct {
	Tok   token.Token
	Op    string
	L, R  ast.Expression
	Level int
}

func (n *cInfix) WriteTo(cw *ast.CodeWriter) {
	cw.WriteRune('(')
	n.L.WriteTo(cw)
	cw.WriteString(" " + n.Op + " ")
	n.R.WriteTo(cw)
	cw.WriteRune(')')
}
func (n *cInfix) Precedence() int { return n.Level }

type cPrefix struct {
	Tok token.Token
	Op  string
	X   ast.Expression
}

func (n *cPrefix) WriteTo(cw *ast.CodeWriter) { cw.WriteString(n.Op); n.X.WriteTo(cw) }
func (n *cPrefix) Precedence() int            { return parser.UNARY }

type cPostfix struct {
	Tok token.Token
	Op  string
	X   ast.Expression
}

func (n *cPostfix) WriteTo(cw *ast.CodeWriter) { n.X.WriteTo(cw); cw.WriteString(n.Op) }
func (n *cPostfix) Precedence() int            { return parser.CALL }

func sCustom(n ast.Node, sb *strings.Builder, rec func(ast.Node)) bool {
	switch x := n.(type) {
	case *cInfix:
		sb.WriteString("(cin " + x.Op + " ")
		recOrNil(x.L, sb, rec)
		sb.WriteString(" ")
		recOrNil(x.R, sb, rec)
		sb.WriteString(")")
		return true
	case *cPrefix:
		sb.WriteString("(cpre " + x.Op + " ")
		recOrNil(x.X, sb, rec)
		sb.WriteString(")")
		return true
	case *cPostfix:
		sb.WriteString("(cpost " + x.Op + " ")
		recOrNil(x.X, sb, rec)
		sb.WriteString(")")
		return true
	}
	return false
}

func recOrNil(e ast.Expression, sb *strings.Builder, rec func(ast.Node)) {
	if walkNil(e) {
		sb.WriteString("_")
		return
	}
	rec(e)
}

// own small expression tree with the xjs level scale
type cnode struct {
	kind  string // id num bin asg un post call dot idx cin cpre cpost
	op    string
	level int // for cin
	kids  []*cnode
	name  string
}

var builtinLevel = map[string]int{"=": 2, "+=": 2, "-=": 2, "||": 3, "&&": 4, "==": 5, "!=": 5, "<": 6, ">": 6, "<=": 6, ">=": 6, "+": 7, "-": 7, "*": 8, "/": 8, "%": 8}

func (n *cnode) lvl() int {
	switch n.kind {
	case "bin", "asg":
		return builtinLevel[n.op]
	case "cin":
		return n.level
	case "un", "cpre":
		return parser.UNARY
	case "post":
		return parser.POSTFIX
	case "cpost", "call":
		return parser.CALL
	case "dot", "idx":
		return parser.MEMBER
	}
	return 100
}

func (n *cnode) S() string {
	switch n.kind {
	case "id":
		return "(id " + n.name + ")"
	case "num":
		return "(num " + jsstr.NumMeaning(n.name) + ")"
	case "bin":
		return "(bin " + n.op + " " + n.kids[0].S() + " " + n.kids[1].S() + ")"
	case "asg":
		return "(asg " + n.op + " " + n.kids[0].S() + " " + n.kids[1].S() + ")"
	case "un":
		return "(un " + n.op + " " + n.kids[0].S() + ")"
	case "post":
		return "(post " + n.op + " " + n.kids[0].S() + ")"
	case "call":
		s := "(call"
		for _, k := range n.kids {
			s += " " + k.S()
		}
		return s + ")"
	case "dot":
		return "(dot " + n.kids[0].S() + " " + n.name + ")"
	case "idx":
		return "(idx " + n.kids[0].S() + " " + n.kids[1].S() + ")"
	case "cin":
		return "(cin " + n.op + " " + n.kids[0].S() + " " + n.kids[1].S() + ")"
	case "cpre":
		return "(cpre " + n.op + " " + n.kids[0].S() + ")"
	case "cpost":
		return "(cpost " + n.op + " " + n.kids[0].S() + ")"
	}
	return "?"
}

// render with the generic level rule of the property statement.
func (n *cnode) render(sb *strings.Builder) {
	par := func(k *cnode, need bool) {
		if need {
			sb.WriteString("(")
			k.render(sb)
			sb.WriteString(")")
		} else {
			k.render(sb)
		}
	}
	sp := func(op string) { sb.WriteString(" " + op + " ") }
	switch n.kind {
	case "id", "num":
		sb.WriteString(n.name)
	case "bin", "cin":
		par(n.kids[0], n.kids[0].lvl() < n.lvl())
		sp(n.op)
		par(n.kids[1], n.kids[1].lvl() <= n.lvl())
	case "asg":
		n.kids[0].render(sb)
		sp(n.op)
		n.kids[1].render(sb) // assignment value: never parenthesised
	case "un", "cpre":
		sb.WriteString(n.op)
		if len(n.op) > 0 && (n.kids[0].kind == "un" || n.kids[0].kind == "cpre") {
			sb.WriteString(" ")
		}
		// equal level never nests to the right: an infix operator of exactly unary level is not absorbed by a prefix operator
		par(n.kids[0], n.kids[0].lvl() < parser.UNARY || (n.kids[0].kind == "cin" && n.kids[0].lvl() == parser.UNARY))
	case "post", "cpost":
		par(n.kids[0], n.kids[0].lvl() < n.lvl())
		sb.WriteString(n.op)
	case "call":
		par(n.kids[0], n.kids[0].lvl() < parser.CALL)
		sb.WriteString("(")
		for i, a := range n.kids[1:] {
			if i > 0 {
				sb.WriteString(", ")
			}
			a.render(sb)
		}
		sb.WriteString(")")
	case "dot":
		par(n.kids[0], n.kids[0].lvl() < parser.MEMBER)
		sb.WriteString("." + n.name)
	case "idx":
		par(n.kids[0], n.kids[0].lvl() < parser.MEMBER)
		sb.WriteString("[")
		n.kids[1].render(sb)
		sb.WriteString("]")
	}
}

func (n *cnode) String() string {
	var sb strings.Builder
	n.render(&sb)
	return sb.String()
}

func cid(s string) *cnode { return &cnode{kind: "id", name: s} }

type opReg struct {
	ch    byte
	role  string // infix prefix postfix
	level int
	// word operators (infix only): the operator is spelled as a word. via = "peek": a contextual keyword - the word
	// stays an identifier for the lexer and an expression interceptor re-types the look-ahead token where an operator
	// may follow an operand, then lets the parser continue (ParseRemainingExpression); via = "keywords": the word is
	// entered into the exported token.Keywords table for the duration of the parse, so the lexer itself issues the type
	word, via string
	// builtin != 0: the operator is registered on this built-in token type (which lacks the role), the lexer issues it
	builtin token.Type
	// bare: the plugin's token interceptor builds the operator token by hand, without positions
	bare bool
	// spell (infix only): the operator is a two-byte non-ASCII character (a multiplication sign, a not sign ...) that the
	// plugin's token interceptor recognises by CurrentChar / PeekChar before it hands over to next()
	spell string
}

func (r opReg) text() string {
	if r.word != "" {
		return r.word
	}
	if r.spell != "" {
		return r.spell
	}
	return string(r.ch)
}

var customChars = []byte{'@', '#', '^', '~', '?'}
var opSpells = []string{"\u00d7", "\u00f7", "\u00ac", "\u00b1", "\u00a7", "\u00b0", "\u00bb",
	// two ASCII characters, the first of which the lexer knows (as an operator, as the member dot, as part of a number):
	// the plugin's interceptor sees the spelling first wherever a token starts
	"..", "::", "->", "**", "|>", "%%", "<>", "~>", ".."}
var opWords = []string{"in", "is", "mod", "isa", "divides", "instanceof", "xor", "implies", "concatenated_with"}

// buildWith registers the operators and returns a builder (fresh lexer builder, token interceptor for the characters).
func buildWith(regs []opReg, m Mode) (*parser.Builder, error) {
	lb := lexer.NewBuilder()
	types := map[byte]token.Type{}
	bare := map[byte]bool{}
	for _, r := range regs {
		if r.builtin != 0 {
			continue
		}
		if _, ok := types[r.ch]; !ok {
			types[r.ch] = lb.RegisterTokenType("op" + string(r.ch))
		}
		if r.bare {
			bare[r.ch] = true
		}
	}
	wordTypes := map[string]token.Type{}
	for _, r := range regs {
		if r.word != "" {
			wordTypes[r.word] = types[r.ch]
			delete(types, r.ch) // the character itself is not an operator for the lexer
		}
	}
	spellTypes := map[string]token.Type{}
	for _, r := range regs {
		if r.spell != "" {
			spellTypes[r.spell] = types[r.ch]
			delete(types, r.ch)
		}
	}
	retype := map[string]token.Type{} // via = "illegal": the plugin lets the lexer produce its token and re-types it
	for _, r := range regs {
		if r.via == "illegal" && r.builtin == 0 && r.word == "" {
			retype[string(r.ch)] = types[r.ch]
			delete(types, r.ch)
		}
	}
	if len(retype) > 0 {
		lb.UseTokenInterceptor(func(l *lexer.Lexer, next func() token.Token) token.Token {
			tok := next()
			if tok.Type == token.ILLEGAL {
				if tt, ok := retype[tok.Literal]; ok {
					tok.Type = tt
				}
			}
			return tok
		})
	}
	lexTypes := map[byte]token.Type{} // characters the plugin's token interceptor turns into operator tokens itself
	for ch, tt := range types {
		lexTypes[ch] = tt
	}
	lb.UseTokenInterceptor(func(l *lexer.Lexer, next func() token.Token) token.Token {
		if len(spellTypes) > 0 {
			for sp, tt := range spellTypes {
				if l.CurrentChar == sp[0] && l.PeekChar() == sp[1] {
					tok := l.NewToken(tt, sp)
					l.ReadChar()
					l.ReadChar()
					return tok
				}
			}
		}
		if tt, ok := lexTypes[l.CurrentChar]; ok {
			if bare[l.CurrentChar] {
				// a token built by hand, type and text only (no positions): still that operator
				tok := token.Token{Type: tt, Literal: string(l.CurrentChar)}
				l.ReadChar()
				return tok
			}
			tok := l.NewToken(tt, string(l.CurrentChar))
			l.ReadChar()
			return tok
		}
		return next()
	})
	for _, r := range regs {
		if r.builtin != 0 {
			types[r.ch] = r.builtin
		}
	}
	for lit, tt := range retype {
		types[lit[0]] = tt
	}
	pb := parser.NewBuilder(lb)
	if m.Tolerant {
		pb.WithTolerantMode(true)
	}
	if m.Smart {
		pb.WithSmartSemicolon(true)
	}
	peekWords := map[string]token.Type{}
	defer func() {
		if len(peekWords) == 0 || pb == nil {
			return
		}
		// ONE interceptor for all contextual keywords of the builder: after every expression step, while the look-ahead
		// token is such a word, it is re-typed and the parser continues the expression
		pb.UseExpressionInterceptor(func(p *parser.Parser, next func() ast.Expression) ast.Expression {
			left := next()
			for p.PeekToken.Type == token.IDENT {
				tt, ok := peekWords[p.PeekToken.Literal]
				if !ok {
					break
				}
				p.PeekToken.Type = tt
				left = p.ParseRemainingExpression(left)
			}
			return left
		})
	}()
	for _, r := range regs {
		r := r
		var err error
		switch r.role {
		case "infix":
			tt := types[r.ch]
			if r.word != "" {
				tt = wordTypes[r.word]
			}
			if r.spell != "" {
				tt = spellTypes[r.spell]
			}
			err = pb.RegisterInfixOperator(tt, r.level, func(tok token.Token, left ast.Expression, right func() ast.Expression) ast.Expression {
				return &cInfix{Tok: tok, Op: r.text(), L: left, R: right(), Level: r.level}
			})
			if err == nil && r.via == "keywords" {
				token.Keywords[r.word] = tt
				keywordsAdded = append(keywordsAdded, r.word)
			}
			if err == nil && r.via == "peek" {
				peekWords[r.word] = tt
			}
		case "prefix":
			err = pb.RegisterPrefixOperator(types[r.ch], func(tok token.Token, right func() ast.Expression) ast.Expression {
				return &cPrefix{Tok: tok, Op: string(r.ch), X: right()}
			})
		case "postfix":
			err = pb.RegisterPostfixOperator(types[r.ch], func(tok token.Token, left ast.Expression) ast.Expression {
				return &cPostfix{Tok: tok, Op: string(r.ch), X: left}
			})
		}
		if err != nil {
			return nil, err
		}
	}
	return pb, nil
}

// breakBeforeInfix puts a line break in front of every " op " that the generic renderer wrote with blanks on both sides
// (infix operators, built-in and registered): `a + b @ c` becomes `a\n+ b\n@ c`. ECMAScript continues the expression
// in front of an infix operator, and so must a parser with registered ones.
func breakBeforeInfix(src string) string {
	var sb strings.Builder
	for i := 0; i < len(src); i++ {
		if src[i] == ' ' && i+2 < len(src) && src[i+1] != ' ' && src[i+1] != '(' && src[i+1] != '[' {
			// a blank that precedes an operator spelling followed by a blank
			j := i + 1
			for j < len(src) && src[j] != ' ' {
				j++
			}
			if j < len(src) && j > i+1 && !isIdentChar05(src[i+1]) || isWordOp(src[i+1:j]) {
				sb.WriteByte('\n')
				continue
			}
		}
		sb.WriteByte(src[i])
	}
	return sb.String()
}

func isIdentChar05(c byte) bool {
	return c == '_' || c == '$' || (c >= '0' && c <= '9') || (c >= 'a' && c <= 'z') || (c >= 'A' && c <= 'Z')
}

func isWordOp(s string) bool {
	for _, w := range opWords {
		if w == s {
			return true
		}
	}
	return false
}

// tightenCustom removes the blanks the generic renderer writes around registered character operators (`a @ b` becomes
// `a@b`, `a \u00d7 -b` becomes `a\u00d7-b`): blanks are not part of an operator. Built-in operators keep theirs (sign fusion).
func tightenCustom(src string, regs []opReg) string {
	for _, r := range regs {
		if r.role == "infix" && r.word == "" && r.builtin == 0 {
			src = strings.ReplaceAll(src, " "+r.text()+" ", r.text())
		}
		if r.role == "prefix" && r.word == "" && r.builtin == 0 {
			src = strings.ReplaceAll(src, r.text()+" ", r.text()) // `# !a` becomes `#!a`
		}
		if r.role == "postfix" && r.word == "" && r.builtin == 0 {
			src = strings.ReplaceAll(src, " "+r.text(), r.text())
		}
	}
	return src
}

// keywordsAdded: words entered into token.Keywords by buildWith (via = "keywords"); removed again after the parse.
var keywordsAdded []string

func removeAddedKeywords() {
	for _, w := range keywordsAdded {
		delete(token.Keywords, w)
	}
	keywordsAdded = nil
}

func checkCustomTree(t *fw.T, regs []opReg, tree *cnode, clause string, keyLevel int) {
	checkCustomTreeIC(t, regs, tree, clause, keyLevel, nil)
}

// checkCustomTreeIC: with coin != nil the builder additionally carries expression interceptors (a plugin next to the
// one that registered the operators) which, per step, pass through or parse the prefix themselves and let the parser
// continue (ParsePrefixExpression / the specific public parse function + ParseRemainingExpression). Grouping of
// registered operators is a property of the text, not of who parses the operands.
func checkCustomTreeIC(t *fw.T, regs []opReg, tree *cnode, clause string, keyLevel int, coin *rand.Rand) {
	src := tree.String()
	want := "(program (expr " + tree.S() + "))"
	mode := Mode{}
	// the expression also stands where expressions stand in statements (after `return`, as initialiser, condition,
	// argument) and is laid out over several lines with the operators leading the continuation lines, in default and in
	// smart-semicolon mode (no line begins with '(' or '['): grouping is the same everywhere
	switch t.Index % 12 {
	case 9, 10:
		// the expression is a statement of its own and the next line begins another statement with a keyword - in
		// default and in tolerant mode (nothing is missing, tolerant mode has nothing to forgive)
		next := gen.Let("zz", gen.Num("2"))
		if t.Index%24 >= 12 {
			next = &gen.Node{K: gen.KIf, Kids: []*gen.Node{gen.Id("zz"), gen.ExprStmt(gen.Id("y"))}}
		}
		tail := gen.Render(gen.Prog(next), rand.New(rand.NewPCG(1, 5)), gen.EmitOpts{}, gen.Layout{Semi: 0, Space: 1, StmtNL: 1, NoTrailingNL: true}).Src
		src, want = src+"\n"+tail, "(program (expr "+tree.S()+") "+strings.TrimSuffix(strings.TrimPrefix(gen.Prog(next).S(), "(program "), ")")+")"
		if t.Index%12 == 10 {
			mode = Mode{Tolerant: true}
		}
	case 11:
		// the very first bytes of the input are the expression's (no blank, no line break in front of it)
		src = tightenCustom(src, regs)
	case 7, 8:
		// no blanks around the registered character operators
		src = tightenCustom(src, regs)
		if t.Index%12 == 8 {
			src, want = "let v = "+src, "(program (let v "+tree.S()+"))"
		}
	case 1:
		src, want = "function f() { return "+src+" }", "(program (func f () (block (return "+tree.S()+"))))"
	case 2:
		src, want = "let v = "+src, "(program (let v "+tree.S()+"))"
	case 3:
		src, want = "if ("+src+") x", "(program (if "+tree.S()+" (expr (id x))))"
	case 4:
		src, want = "g(z, "+src+")", "(program (expr (call (id g) (id z) "+tree.S()+")))"
	case 5, 6:
		if ml := breakBeforeInfix(src); !hasLineLeadingBracket(ml) {
			src = ml
			if t.Index%12 == 6 {
				mode = Mode{Smart: true}
			}
		}
	}
	wit := func() map[string]any {
		return map[string]any{"source": src, "registered": fmt.Sprint(regs), "expected_tree": want, "with_expression_interceptors": coin != nil}
	}
	var got string
	var errs []parser.ParserError
	ok := t.Guard("parse with registered operators", wit, func() {
		defer removeAddedKeywords()
		pb, err := buildWith(regs, mode)
		if err != nil {
			panic("registration refused: " + err.Error())
		}
		if coin != nil {
			for i, k := 0, 1+coin.IntN(3); i < k; i++ {
				pb.UseExpressionInterceptor(func(p *parser.Parser, next func() ast.Expression) ast.Expression {
					switch coin.IntN(3) {
					case 0:
						return p.ParseRemainingExpression(p.ParsePrefixExpression())
					case 1:
						return p.ParseRemainingExpression(dispatchPrefix(p))
					}
					return next()
				})
			}
			t.Count("texts_parsed_through_re-entrant_expression_interceptors", 1)
		}
		p := pb.Build(src)
		prog, _ := p.ParseProgram()
		errs = p.Errors()
		got = norm.SCustom(prog, sCustom)
	})
	if !ok {
		return
	}
	t.Count("texts_parsed", 1)
	key := fmt.Sprintf("level=%d", keyLevel)
	if coin != nil {
		key += "/with expression interceptors"
	}
	if len(errs) > 0 {
		w := wit()
		w["errors"] = errs
		t.Violate(clause, key, fmt.Sprintf("text with a registered operator at %s is rejected (%s): %s", key, errs[0].Message, src), w)
		return
	}
	if got != want {
		w := wit()
		w["got_tree"] = got
		t.Violate(clause, key, fmt.Sprintf("operator registered at %s groups differently from a left-associative operator of that level: %s => %s", key, src, got), w)
	}
}

var nbBin = []string{"||", "&&", "==", "!=", "<", ">", "<=", ">=", "+", "-", "*", "/", "%"}

// one case = one level L: every built-in neighbour on either side, both tree shapes
func runC05Levels(t *fw.T) {
	L := 1 + t.Index
	regs := []opReg{{ch: '@', role: "infix", level: L}}
	at := func(l, r *cnode) *cnode { return &cnode{kind: "cin", op: "@", level: L, kids: []*cnode{l, r}} }
	a, b, c := cid("a"), cid("b"), cid("c")
	var trees []*cnode
	trees = append(trees, at(a, b), at(at(a, b), c), at(a, at(b, c)))
	for _, op := range nbBin {
		bin := func(l, r *cnode) *cnode { return &cnode{kind: "bin", op: op, kids: []*cnode{l, r}} }
		trees = append(trees, at(bin(a, b), c), bin(a, at(b, c)), bin(at(a, b), c), at(a, bin(b, c)))
	}
	for _, op := range []string{"=", "+=", "-="} {
		trees = append(trees, &cnode{kind: "asg", op: op, kids: []*cnode{a, at(b, c)}})
		trees = append(trees, at(a, &cnode{kind: "asg", op: op, kids: []*cnode{b, c}}))
	}
	for _, op := range []string{"!", "-", "++", "--"} {
		un := func(x *cnode) *cnode { return &cnode{kind: "un", op: op, kids: []*cnode{x}} }
		trees = append(trees, at(un(a), b), un(at(a, b)), at(a, un(b)))
	}
	for _, op := range []string{"++", "--"} {
		po := func(x *cnode) *cnode { return &cnode{kind: "post", op: op, kids: []*cnode{x}} }
		trees = append(trees, po(at(a, b)), at(a, po(b)), at(po(a), b))
	}
	call := func(f *cnode, args ...*cnode) *cnode { return &cnode{kind: "call", kids: append([]*cnode{f}, args...)} }
	dot := func(o *cnode) *cnode { return &cnode{kind: "dot", name: "p", kids: []*cnode{o}} }
	idx := func(o, i *cnode) *cnode { return &cnode{kind: "idx", kids: []*cnode{o, i}} }
	trees = append(trees, call(at(a, b), c), at(a, call(b, c)), at(call(a, c), b), call(a, at(b, c)),
		dot(at(a, b)), at(a, dot(b)), at(dot(a), b), idx(at(a, b), c), at(a, idx(b, c)), idx(a, at(b, c)))
	for _, tr := range trees {
		checkCustomTree(t, regs, tr, "infix-level-grouping", L)
		t.Distinct(fmt.Sprintf("L%d %s", L, tr.S()))
	}
	// an expression with the registered operator as assignment target: where the parser accepts the text with a built-in
	// operator of the same level in that place (`a.b = c` at member level; also `a + b = c` as long as targets are not
	// validated), it accepts the registered one and groups it the same way
	if analog, ok := map[int]string{3: " || ", 4: " && ", 5: " == ", 6: " < ", 7: " + ", 8: " * ", 13: "."}[L]; ok {
		for _, op := range []string{"=", "+=", "-="} {
			if po := parse("a"+analog+"b "+op+" c", Mode{}); po.Err == nil && len(po.Prog.Statements) == 1 && strings.HasPrefix(norm.S(po.Prog), "(program (expr (asg") {
				checkCustomTree(t, regs, &cnode{kind: "asg", op: op, kids: []*cnode{at(a, b), c}}, "infix-level-grouping", L)
				t.Count("assignment_targets_with_a_registered_operator_checked_against_the_built-in_analog", 1)
			}
		}
	}
	t.Feature("levels", fmt.Sprint(L))
	if L == 8 {
		t.Sample(map[string]any{"stratum": "levels", "level": L, "source": trees[7].String(), "tree": trees[7].S()})
	}
}

// two registered infix operators at (L1, L2)
func runC05Pairs(t *fw.T) {
	L1, L2 := 1+t.Index/13, 1+t.Index%13
	regs := []opReg{{ch: '@', role: "infix", level: L1}, {ch: '#', role: "infix", level: L2}}
	at := func(l, r *cnode) *cnode { return &cnode{kind: "cin", op: "@", level: L1, kids: []*cnode{l, r}} }
	hs := func(l, r *cnode) *cnode { return &cnode{kind: "cin", op: "#", level: L2, kids: []*cnode{l, r}} }
	a, b, c := cid("a"), cid("b"), cid("c")
	lo := L1
	if L2 < lo {
		lo = L2
	}
	for _, tr := range []*cnode{hs(at(a, b), c), at(a, hs(b, c)), at(hs(a, b), c), hs(a, at(b, c))} {
		checkCustomTree(t, regs, tr, "infix-level-grouping", lo)
		t.Distinct(fmt.Sprintf("L%d,%d %s", L1, L2, tr.S()))
	}
}

// registered prefix / postfix operators against every neighbour
func runC05PrePost(t *fw.T) {
	regs := []opReg{{ch: '~', role: "prefix"}, {ch: '?', role: "postfix"}}
	pre := func(x *cnode) *cnode { return &cnode{kind: "cpre", op: "~", kids: []*cnode{x}} }
	pst := func(x *cnode) *cnode { return &cnode{kind: "cpost", op: "?", kids: []*cnode{x}} }
	a, b := cid("a"), cid("b")
	var trees []*cnode
	trees = append(trees, pre(a), pst(a), pre(pst(a)), pst(pre(a)), pre(pre(a)), pst(pst(a)))
	for _, op := range nbBin {
		bin := func(l, r *cnode) *cnode { return &cnode{kind: "bin", op: op, kids: []*cnode{l, r}} }
		trees = append(trees, bin(pre(a), b), pre(bin(a, b)), bin(a, pre(b)), bin(pst(a), b), pst(bin(a, b)), bin(a, pst(b)))
	}
	for _, op := range []string{"!", "-", "++", "--"} {
		un := func(x *cnode) *cnode { return &cnode{kind: "un", op: op, kids: []*cnode{x}} }
		trees = append(trees, un(pre(a)), pre(un(a)), un(pst(a)), pst(un(a)))
	}
	for _, op := range []string{"++", "--"} {
		po := func(x *cnode) *cnode { return &cnode{kind: "post", op: op, kids: []*cnode{x}} }
		trees = append(trees, po(pre(a)), pre(po(a)), po(pst(a)), pst(po(a)))
	}
	call := func(f *cnode, args ...*cnode) *cnode { return &cnode{kind: "call", kids: append([]*cnode{f}, args...)} }
	dot := func(o *cnode) *cnode { return &cnode{kind: "dot", name: "p", kids: []*cnode{o}} }
	trees = append(trees, call(pre(a), b), pre(call(a, b)), call(pst(a), b), pst(call(a, b)), dot(pre(a)), pre(dot(a)), dot(pst(a)), pst(dot(a)),
		&cnode{kind: "asg", op: "=", kids: []*cnode{a, pre(b)}}, &cnode{kind: "asg", op: "=", kids: []*cnode{a, pst(b)}})
	// every registered character as prefix operator in front of every kind of operand start, as the first bytes of the
	// input (`#!a`, `@-a`, `~(a)` ...): where the text stands in the file does not matter
	for _, ch := range customChars {
		pr := []opReg{{ch: ch, role: "prefix"}}
		for _, operand := range []*cnode{a, {kind: "un", op: "!", kids: []*cnode{a}}, {kind: "un", op: "-", kids: []*cnode{a}}, {kind: "un", op: "++", kids: []*cnode{a}},
			call(a, b), dot(a), {kind: "cpre", op: string(ch), kids: []*cnode{a}}} {
			tr := &cnode{kind: "cpre", op: string(ch), kids: []*cnode{operand}}
			for k := 0; k < 12; k++ { // all layout positions of checkCustomTree
				t.Index = k
				checkCustomTree(t, pr, tr, "prefix-postfix-binding", 0)
			}
			t.Index = 0
			t.Distinct("file start " + tr.S())
		}
	}
	// ... and once more with a plugin that obtains its operator tokens by re-typing the one-character tokens the lexer
	// itself produces for characters it does not know (`tok := next(); if tok is ILLEGAL "~" ...`)
	regs2 := []opReg{{ch: '~', role: "prefix", via: "illegal"}, {ch: '?', role: "postfix", via: "illegal"}}
	for _, tr := range trees {
		checkCustomTree(t, regs, tr, "prefix-postfix-binding", 0)
		checkCustomTree(t, regs2, tr, "prefix-postfix-binding", 0)
		t.Distinct("prepost " + tr.S())
	}
}

// postfix operators registered on built-in tokens that have no postfix role (the README's factorial `!` on the NOT
// token is the model): they bind like a call-level suffix against every neighbour, whatever the token's built-in roles
// and levels are. One case = one token.
var postfixHosts = []struct {
	ch  byte
	tt  token.Type
	bin string // the built-in binary spelling that the registration takes over ("" = none)
}{{'!', token.NOT, ""}, {'%', token.MODULO, "%"}, {'*', token.MULTIPLY, "*"}, {'>', token.GT, ">"}, {'<', token.LT, "<"}, {':', token.COLON, ""}}

func runC05PostfixHosts(t *fw.T) {
	h := postfixHosts[t.Index]
	regs := []opReg{{ch: h.ch, role: "postfix", builtin: h.tt}}
	pst := func(x *cnode) *cnode { return &cnode{kind: "cpost", op: string(h.ch), kids: []*cnode{x}} }
	a, b := cid("a"), cid("b")
	num := &cnode{kind: "num", name: "50"}
	trees := []*cnode{pst(a), pst(num), pst(pst(a))}
	for _, op := range nbBin {
		if op == h.bin || (len(op) > 1 && op[0] == h.ch) || (h.ch == '!' && op == "!=") {
			continue
		}
		bin := func(l, r *cnode) *cnode { return &cnode{kind: "bin", op: op, kids: []*cnode{l, r}} }
		trees = append(trees, bin(a, pst(b)), bin(pst(a), b), pst(bin(a, b)), bin(num, pst(num)))
	}
	for _, op := range []string{"-", "!", "++"} {
		if op[0] == h.ch {
			continue
		}
		un := func(x *cnode) *cnode { return &cnode{kind: "un", op: op, kids: []*cnode{x}} }
		trees = append(trees, un(pst(a)), pst(un(a)), un(pst(num)))
	}
	call := func(f *cnode, args ...*cnode) *cnode { return &cnode{kind: "call", kids: append([]*cnode{f}, args...)} }
	dot := func(o *cnode) *cnode { return &cnode{kind: "dot", name: "p", kids: []*cnode{o}} }
	trees = append(trees, pst(call(a, b)), call(pst(a), b), pst(dot(a)), dot(pst(a)), &cnode{kind: "asg", op: "=", kids: []*cnode{a, pst(b)}})
	for _, tr := range trees {
		checkCustomTree(t, regs, tr, "postfix-on-built-in-token", 0)
		t.Distinct("host " + string(h.ch) + " " + tr.S())
	}
	t.Feature("postfix operator hosted by built-in token", string(h.ch))
}

func randCustomTree(r *rand.Rand, d int, regs []opReg) *cnode {
	if d <= 0 {
		if r.IntN(4) == 0 {
			return &cnode{kind: "num", name: fmt.Sprint(r.IntN(100))}
		}
		return cid(string(rune('a' + r.IntN(6))))
	}
	sub := func() *cnode { return randCustomTree(r, d-1-r.IntN(2), regs) }
	switch x := r.IntN(10); {
	case x < 4:
		rg := regs[r.IntN(len(regs))]
		switch rg.role {
		case "infix":
			return &cnode{kind: "cin", op: rg.text(), level: rg.level, kids: []*cnode{sub(), sub()}}
		case "prefix":
			return &cnode{kind: "cpre", op: string(rg.ch), kids: []*cnode{sub()}}
		default:
			return &cnode{kind: "cpost", op: string(rg.ch), kids: []*cnode{sub()}}
		}
	case x < 7:
		return &cnode{kind: "bin", op: nbBin[r.IntN(len(nbBin))], kids: []*cnode{sub(), sub()}}
	case x == 7:
		return &cnode{kind: "un", op: []string{"!", "-"}[r.IntN(2)], kids: []*cnode{sub()}}
	case x == 8:
		return &cnode{kind: "call", kids: []*cnode{sub(), sub()}}
	default:
		return &cnode{kind: "dot", name: "p", kids: []*cnode{sub()}}
	}
}

func runC05Random(t *fw.T) {
	r := t.Rand()
	n := 1 + r.IntN(3)
	var regs []opReg
	minL := 99
	used := map[byte]bool{}
	for i := 0; i < n; i++ {
		ch := customChars[r.IntN(len(customChars))]
		if used[ch] {
			continue
		}
		used[ch] = true
		role := []string{"infix", "infix", "infix", "prefix", "postfix"}[r.IntN(5)]
		rg := opReg{ch: ch, role: role, level: 2 + r.IntN(12)} // level 1 is run as its own stratum (known finding)
		if role == "infix" && r.IntN(3) == 0 {
			// a third of the infix operators is spelled as a word (2..14 letters), issued through the keyword table or as a
			// contextual keyword
			rg.word = opWords[r.IntN(len(opWords))]
			rg.via = []string{"peek", "keywords"}[r.IntN(2)]
			for _, o := range regs {
				if o.word == rg.word {
					rg.word, rg.via = "", ""
				}
			}
		}
		if role == "infix" && rg.word == "" && r.IntN(5) == 0 {
			rg.spell = opSpells[r.IntN(len(opSpells))]
			for _, o := range regs {
				if o.spell == rg.spell {
					rg.spell = ""
				}
			}
		}
		if rg.spell != "" {
			// recognised by the plugin's own token interceptor
		} else if rg.word == "" && r.IntN(4) == 0 {
			rg.bare = true
		} else if rg.word == "" && r.IntN(4) == 0 {
			rg.via = "illegal"
		}
		regs = append(regs, rg)
		if role == "infix" && rg.level < minL {
			minL = rg.level
		}
	}
	tree := randCustomTree(r, 2+r.IntN(5), regs)
	if minL == 99 {
		minL = 0
	}
	checkCustomTree(t, regs, tree, "mixed-tree-grouping", minL)
	checkCustomTreeIC(t, regs, tree, "mixed-tree-grouping", minL, rand.New(rand.NewPCG(r.Uint64(), 5)))
	t.Distinct(fmt.Sprint(regs) + tree.S())
	if t.WantSample() && len(tree.String()) < 80 {
		t.Sample(map[string]any{"stratum": "random", "registered": fmt.Sprint(regs), "source": tree.String(), "tree": tree.S()})
	}
}

// ---- registration histories against a sequential model ----

type regOp struct {
	Op    string `json:"op"` // type prefix infix postfix
	Name  string `json:"name,omitempty"`
	Tok   string `json:"tok,omitempty"` // "builtin:<n>" or custom name
	Level int    `json:"level,omitempty"`
}

var builtinPrefix = []token.Type{token.IDENT, token.INT, token.FLOAT, token.STRING, token.RAW_STRING, token.TRUE, token.FALSE, token.NULL, token.NOT, token.MINUS, token.INCREMENT, token.DECREMENT, token.LPAREN, token.LBRACKET, token.LBRACE, token.FUNCTION}
var builtinInfix = []token.Type{token.ASSIGN, token.PLUS_ASSIGN, token.MINUS_ASSIGN, token.OR, token.AND, token.EQ, token.NOT_EQ, token.LT, token.GT, token.LTE, token.GTE, token.PLUS, token.MINUS, token.MULTIPLY, token.DIVIDE, token.MODULO, token.INCREMENT, token.DECREMENT, token.LPAREN, token.DOT, token.LBRACKET}
var builtinPostfix = []token.Type{token.INCREMENT, token.DECREMENT}

// names include words the lexer already knows (keywords, operator spellings): a registered name always gets a fresh id
var typeNames = []string{"op@", "op#", "op^", "op~", "op?", "pow", "null", "if", "function", "true", "let", "return", "+", "ident", "EOF", "",
	// names that differ in letter case or in blanks only are different names
	"PI", "pi", "Pi", " pi", "pi ", "e", "E", "Null", "IF", " ", "\t", "op@ ", "Op@", "pow\x00", "é", "É"}

// built-in tokens in a role they do NOT have built in: the first registration is accepted, a repeat must be refused
var builtinFreePrefix = []token.Type{token.PLUS, token.MULTIPLY, token.DIVIDE, token.MODULO, token.LT, token.GT}
var builtinFreeInfix = []token.Type{token.NOT, token.COLON}
var builtinFreePostfix = []token.Type{token.NOT, token.COLON}
var nameChar = map[string]byte{"op@": '@', "op#": '#', "op^": '^', "op~": '~', "op?": '?', "pow": '&'}

func runC05History(t *fw.T) {
	r := t.Rand()
	n := 1 + r.IntN(40)
	// model
	ids := map[string]token.Type{}
	next := token.Type(token.DYNAMIC_TOKENS_START)
	roles := map[string]map[token.Type]bool{"prefix": {}, "infix": {}, "postfix": {}}
	for _, x := range builtinPrefix {
		roles["prefix"][x] = true
	}
	for _, x := range builtinInfix {
		roles["infix"][x] = true
	}
	for _, x := range builtinPostfix {
		roles["postfix"][x] = true
	}
	customRole := map[token.Type]string{} // custom token -> "infix"/"postfix" (at most one of the two)
	// real + twin
	lbReal, lbTwin := lexer.NewBuilder(), lexer.NewBuilder()
	pbReal, pbTwin := parser.NewBuilder(lbReal), parser.NewBuilder(lbTwin)
	chars := map[byte]token.Type{}
	ti := func(l *lexer.Lexer, next func() token.Token) token.Token {
		if tt, ok := chars[l.CurrentChar]; ok {
			tok := l.NewToken(tt, string(l.CurrentChar))
			l.ReadChar()
			return tok
		}
		return next()
	}
	lbReal.UseTokenInterceptor(ti)
	lbTwin.UseTokenInterceptor(ti)
	var hist []regOp
	var accepted []opReg
	wit := func() map[string]any { return map[string]any{"history": hist} }
	mkInfix := func(ch byte, lvl int) func(token.Token, ast.Expression, func() ast.Expression) ast.Expression {
		return func(tok token.Token, left ast.Expression, right func() ast.Expression) ast.Expression {
			return &cInfix{Tok: tok, Op: string(ch), L: left, R: right(), Level: lvl}
		}
	}
	mkPrefix := func(ch byte) func(token.Token, func() ast.Expression) ast.Expression {
		return func(tok token.Token, right func() ast.Expression) ast.Expression {
			return &cPrefix{Tok: tok, Op: string(ch), X: right()}
		}
	}
	mkPostfix := func(ch byte) func(token.Token, ast.Expression) ast.Expression {
		return func(tok token.Token, left ast.Expression) ast.Expression {
			return &cPostfix{Tok: tok, Op: string(ch), X: left}
		}
	}
	bad := false
	ok := t.Guard("registration history", wit, func() {
		if r.IntN(4) == 0 {
			// other plugins registered token types before: ids of this history's names lie further up (also beyond 1024,
			// 1100, 1500: an id is an id, whatever its magnitude)
			k := []int{1, 7, 23, 24, 25, 30, 47, 63, 100, 255, 600}[r.IntN(11)] + r.IntN(3)
			hist = append(hist, regOp{Op: "pad", Level: k})
			for j := 0; j < k; j++ {
				nm := fmt.Sprintf("pad%d", j)
				got := lbReal.RegisterTokenType(nm)
				lbTwin.RegisterTokenType(nm)
				if got != next {
					t.Violate("token-id", "sequential model", fmt.Sprintf("RegisterTokenType(%q) returned %d, model says %d", nm, got, next), wit())
					bad = true
					return
				}
				next++
			}
			t.Count("histories_with_token_types_registered_before", 1)
		}
		for i := 0; i < n && !bad; i++ {
			if r.IntN(6) == 0 {
				// a parser built (and used) in the middle of the history: registrations made afterwards on the same builder
				// must behave exactly as on the twin, which is never built before the history ends
				hist = append(hist, regOp{Op: "build"})
				pbReal.Build("a + b * -c").ParseProgram()
				t.Count("builds_in_mid_history", 1)
			}
			if len(ids) == 0 || r.IntN(3) == 0 {
				name := typeNames[r.IntN(len(typeNames))]
				hist = append(hist, regOp{Op: "type", Name: name})
				want, seen := ids[name]
				if !seen {
					want = next
					next++
					ids[name] = want
				}
				got := lbReal.RegisterTokenType(name)
				lbTwin.RegisterTokenType(name)
				if c, ok := nameChar[name]; ok {
					chars[c] = want
				}
				t.Count("registrations_checked", 1)
				if got != want {
					t.Violate("token-id", "sequential model", fmt.Sprintf("RegisterTokenType(%q) returned %d, model says %d after history %v", name, got, want, hist), wit())
					bad = true
				}
				if got < token.DYNAMIC_TOKENS_START {
					t.Violate("token-id", "collides with built-in range", fmt.Sprintf("RegisterTokenType(%q) returned %d", name, got), wit())
					bad = true
				}
				continue
			}
			role := []string{"prefix", "infix", "postfix"}[r.IntN(3)]
			var tt token.Type
			var tokName string
			var ch byte
			custom := r.IntN(4) > 0
			if custom {
				names := make([]string, 0, len(ids))
				for k := range ids {
					names = append(names, k)
				}
				sort.Strings(names)
				nm := names[r.IntN(len(names))]
				tt, tokName, ch = ids[nm], nm, nameChar[nm]
				// one custom token carries at most one of the roles infix / postfix (cross-role overriding is not specified)
				if role != "prefix" {
					if cr, has := customRole[tt]; has && cr != role {
						role = cr
					}
				}
			} else {
				// built-in token in a role it already has: must be refused
				var pool []token.Type
				switch role {
				case "prefix":
					pool = builtinPrefix
				case "infix":
					pool = builtinInfix
				default:
					pool = builtinPostfix
				}
				if r.IntN(3) == 0 {
					// a role the token does not have built in (free the first time, taken afterwards)
					switch role {
					case "prefix":
						pool = builtinFreePrefix
					case "infix":
						pool = builtinFreeInfix
					default:
						pool = builtinFreePostfix
					}
				}
				tt = pool[r.IntN(len(pool))]
				tokName = fmt.Sprintf("builtin:%s", tt)
			}
			lvl := 2 + r.IntN(12)
			hist = append(hist, regOp{Op: role, Tok: tokName, Level: lvl})
			wantErr := roles[role][tt]
			var err error
			switch role {
			case "prefix":
				err = pbReal.RegisterPrefixOperator(tt, mkPrefix(ch))
				if !wantErr {
					pbTwin.RegisterPrefixOperator(tt, mkPrefix(ch))
				}
			case "infix":
				err = pbReal.RegisterInfixOperator(tt, lvl, mkInfix(ch, lvl))
				if !wantErr {
					pbTwin.RegisterInfixOperator(tt, lvl, mkInfix(ch, lvl))
				}
			default:
				err = pbReal.RegisterPostfixOperator(tt, mkPostfix(ch))
				if !wantErr {
					pbTwin.RegisterPostfixOperator(tt, mkPostfix(ch))
				}
			}
			t.Count("registrations_checked", 1)
			if err != nil && !wantErr && !custom {
				// a built-in token refused in a role it does not have: the statement only says when a registration IS refused,
				// an implementation may be stricter about built-in tokens; not judged, the history ends here
				t.Count("builtin_free_role_refused_not_judged", 1)
				bad = true
				continue
			}
			if (err != nil) != wantErr {
				t.Violate("duplicate-refusal", role, fmt.Sprintf("Register%sOperator(%s) returned err=%v, model says refused=%v after history %v", role, tokName, err, wantErr, hist), wit())
				bad = true
				continue
			}
			if !wantErr {
				roles[role][tt] = true
				if custom {
					if role != "prefix" {
						customRole[tt] = role
					}
					if ch != 0 {
						accepted = append(accepted, opReg{ch: ch, role: role, level: lvl})
					}
				}
			} else {
				t.Count("refused_registrations", 1)
			}
		}
	})
	if !ok || bad {
		return
	}
	// ids distinct across names
	seenIDs := map[token.Type]string{}
	for nm, id := range ids {
		if other, dup := seenIDs[id]; dup {
			t.Violate("token-id", "shared id", fmt.Sprintf("names %q and %q share id %d", nm, other, id), wit())
			return
		}
		seenIDs[id] = nm
		if again := lbReal.RegisterTokenType(nm); again != id {
			t.Violate("token-id", "unstable", fmt.Sprintf("repeat RegisterTokenType(%q) = %d, first = %d", nm, again, id), wit())
			return
		}
	}
	// the real builder (which saw refused calls) and the twin (which skipped them) must parse alike
	progs := []string{"a + b * c", "x = -y", "f(a, b)[0].p++"}
	for _, a := range accepted {
		// one minimal use of every accepted operator
		switch a.role {
		case "infix":
			progs = append(progs, "a "+string(a.ch)+" b")
		case "prefix":
			progs = append(progs, string(a.ch)+"a")
		default:
			progs = append(progs, "a"+string(a.ch))
		}
	}
	if len(accepted) > 0 {
		for k := 0; k < 3; k++ {
			tr := randCustomTree(r, 2+r.IntN(3), accepted)
			progs = append(progs, tr.String())
		}
	}
	for _, src := range progs {
		var a, b string
		var ea, eb []parser.ParserError
		var pa, pb map[token.Type]int
		w := func() map[string]any { m := wit(); m["program"] = src; return m }
		if !t.Guard("parse after history", w, func() {
			p1 := pbReal.Build(src)
			g1, _ := p1.ParseProgram()
			p2 := pbTwin.Build(src)
			g2, _ := p2.ParseProgram()
			a, b = norm.SCustom(g1, sCustom), norm.SCustom(g2, sCustom)
			ea, eb = p1.Errors(), p2.Errors()
			pa, _ = hookPrecs(p1)
			pb, _ = hookPrecs(p2)
		}) {
			return
		}
		t.Count("twin_parses", 1)
		if a != b || !reflect.DeepEqual(ea, eb) {
			m := w()
			m["real"], m["twin"] = a, b
			t.Violate("history-changes-parser", "twin differential", fmt.Sprintf("after a history with refused registrations and intermediate builds the builder parses %q differently from a twin that saw only the accepted registrations: %s vs %s", src, a, b), m)
			return
		}
		if pa != nil && !reflect.DeepEqual(pa, pb) {
			t.Violate("history-changes-parser", "hook: binding-power table", "per-parser binding-power table differs from the twin's", w())
			return
		}
	}
	t.Distinct(fmt.Sprint(hist))
	if t.WantSample() && len(hist) < 8 {
		t.Sample(map[string]any{"stratum": "histories", "history": hist})
	}
}

func init() {
	fw.Register(&fw.Property{
		ID: "C05", Level: "exploration",
		Rule: "(i) trees mixing registered and built-in operators are rendered with the generic level rule of the statement (left operand parenthesised iff looser, right operand iff looser-or-equal, prefix operand iff looser than unary, suffix operand iff looser than the suffix's level, assignment value never) and must parse back to the same tree: exhaustively for every level 1..13 x every built-in neighbour on either side x both shapes, every pair of levels for two registered operators, registered prefix/postfix against every neighbour; random mixed trees beyond. (ii) random registration histories (length <= 40, names from a pool of 6 with repeats, built-in and registered tokens) run in lock-step with a sequential model of ids and role sets; afterwards the real builder and a twin that skipped the refused calls parse the same programs (hook: equal binding-power tables). distinct = distinct (registration, tree) / histories.",
		Assumptions: []string{
			"a registered token carries at most one of the roles infix/postfix, and built-in tokens are only registered in a role they already have (cross-role overriding is not specified by the statement)",
			"level 1 is the parser's LOWEST sentinel: run as the stored witness of an open finding",
		},
		Strata: []*fw.Stratum{
			{Name: "levels-x-neighbours", Quick: 13, Thorough: 13, Exhaustive: true, Run: runC05Levels},
			{Name: "level-pairs", Quick: 169, Thorough: 169, Exhaustive: true, Run: runC05Pairs},
			{Name: "prefix-postfix", Quick: 1, Thorough: 1, Exhaustive: true, Run: runC05PrePost},
			{Name: "postfix-on-built-in-tokens", Quick: len(postfixHosts), Thorough: len(postfixHosts), Exhaustive: true, Run: runC05PostfixHosts},
			{Name: "random-mixed", Quick: 200000, Thorough: 1000000, Run: runC05Random},
			{Name: "histories", Quick: 60000, Thorough: 400000, Run: runC05History},
		},
	})
}
