package mon

import (
	"reflect"

	"github.com/xjslang/xjs/ast"
)

// stripGroups removes every explicit grouping node from a parsed tree in place, the way a simplifying transformation
// pass (or a plugin that rebuilds expressions) does: afterwards the printers have to decide about parentheses
// themselves, while every remaining node still carries the token - and the source position - the parser gave it.
func stripGroups(prog *ast.Program) int {
	n := 0
	exprT := reflect.TypeOf((*ast.Expression)(nil)).Elem()
	seen := map[uintptr]bool{}
	var walk func(v reflect.Value)
	walk = func(v reflect.Value) {
		switch v.Kind() {
		case reflect.Interface:
			if v.IsNil() {
				return
			}
			if v.Type() == exprT && v.CanSet() {
				for {
					g, ok := v.Interface().(*ast.GroupedExpression)
					if !ok || g == nil || g.Expression == nil {
						break
					}
					v.Set(reflect.ValueOf(g.Expression))
					n++
				}
			}
			walk(v.Elem())
		case reflect.Ptr:
			if v.IsNil() || seen[v.Pointer()] {
				return
			}
			seen[v.Pointer()] = true
			walk(v.Elem())
		case reflect.Struct:
			for i := 0; i < v.NumField(); i++ {
				if v.Type().Field(i).IsExported() {
					walk(v.Field(i))
				}
			}
		case reflect.Slice:
			for i := 0; i < v.Len(); i++ {
				walk(v.Index(i))
			}
		}
	}
	walk(reflect.ValueOf(prog))
	return n
}
