package mon

import (
	"fmt"
	"math/rand/v2"

	"github.com/xjslang/xjs/ast"

	"verif/fw"
	"verif/gen"
	"verif/norm"
)

// ---- C03: printed code parses back to the tree it was printed from --------

var c03Printers = []Cfg{CfgCompact, CfgPretty, CfgPrettyTabN}

// checkRoundTrip prints prog under every printer, re-parses, compares shape and checks the fixed point.
func checkRoundTrip(t *fw.T, prog *ast.Program, want string, label string, desc func() string) {
	// every second case prints through this worker's long-lived Compiler values (one per printer) instead of fresh ones:
	// a printer is a value that users keep, and what it remembers from the previous program must not show in this one
	reused := (t.Index/16)%2 == 1 // case i runs on worker i mod 16: every worker alternates
	if reused {
		label += "/long-lived compiler"
		t.Count("round_trips_through_a_long_lived_compiler", 1)
	}
	for _, k := range c03Printers {
		k := k
		compile := k.Compile
		if reused {
			compile = k.CompileReused
		}
		var code string
		wit := func() map[string]any {
			return map[string]any{"tree": desc(), "printer": k.String(), "printed": code, "expected_shape": want, "long_lived_compiler": reused}
		}
		if !t.Guard("compile assembled tree", wit, func() { code = compile(prog).Code }) {
			continue
		}
		var po ParseOut
		if !t.Guard("re-parse printed code", wit, func() { po = parse(code, Mode{}) }) {
			continue
		}
		t.Count("printed_and_reparsed", 1)
		if po.Err != nil || len(po.Errors) > 0 {
			w := wit()
			msg := ""
			if len(po.Errors) > 0 {
				msg = po.Errors[0].Message
			}
			w["errors"] = po.Errors
			t.Violate("printed-code-rejected", label+"/"+errKey(msg), "printed code does not parse: "+msg+": "+clip(code, 200), w)
			continue
		}
		got := norm.S(po.Prog)
		if got != want {
			w := wit()
			w["reparsed_shape"] = got
			t.Violate("reparse-shape", label+"/"+diffKey(want, got), "re-parsed tree differs from the printed one: "+clip(code, 200), w)
			continue
		}
		var again string
		if !t.Guard("compile re-parsed tree", wit, func() { again = compile(po.Prog).Code }) {
			continue
		}
		if again != code {
			w := wit()
			w["second_print"] = again
			t.Violate("not-fixed-point", label+"/"+k.String(), "compiling the re-parsed output does not reproduce it: "+clip(code, 120)+" vs "+clip(again, 120), w)
		}
	}
}

// node kinds and their operand slots for the exhaustive depth-3 enumeration
type slotKind int

const (
	slotAny    slotKind = iota // arbitrary expression
	slotCallee                 // call-level-or-tighter
	slotTarget                 // identifier or member access
)

type kindSpec struct {
	name  string
	slots []slotKind
	mk    func(kids []*gen.Node) *gen.Node
	level int // 0 = looser than call level, 1 = call level (call, member), used for slot constraints
	isMem bool
}

var c03Kinds []kindSpec

func init() {
	for _, op := range gen.BinOps {
		op := op
		c03Kinds = append(c03Kinds, kindSpec{name: op, slots: []slotKind{slotAny, slotAny}, mk: func(k []*gen.Node) *gen.Node { return gen.Bin(op, k[0], k[1]) }})
	}
	for _, op := range gen.AsgOps {
		op := op
		c03Kinds = append(c03Kinds, kindSpec{name: op, slots: []slotKind{slotTarget, slotAny}, mk: func(k []*gen.Node) *gen.Node { return gen.Asg(op, k[0], k[1]) }})
	}
	for _, op := range gen.UnOps {
		op := op
		c03Kinds = append(c03Kinds, kindSpec{name: "pre" + op, slots: []slotKind{slotAny}, mk: func(k []*gen.Node) *gen.Node { return gen.Un(op, k[0]) }})
	}
	for _, op := range gen.PostOps {
		op := op
		c03Kinds = append(c03Kinds, kindSpec{name: "post" + op, slots: []slotKind{slotAny}, mk: func(k []*gen.Node) *gen.Node { return gen.Post(op, k[0]) }})
	}
	c03Kinds = append(c03Kinds,
		kindSpec{name: "call", level: 1, slots: []slotKind{slotCallee, slotAny}, mk: func(k []*gen.Node) *gen.Node { return gen.Call(k[0], k[1]) }},
		kindSpec{name: "dot", level: 1, isMem: true, slots: []slotKind{slotCallee}, mk: func(k []*gen.Node) *gen.Node { return gen.Dot(k[0], "p") }},
		kindSpec{name: "idx", level: 1, isMem: true, slots: []slotKind{slotCallee, slotAny}, mk: func(k []*gen.Node) *gen.Node { return gen.Idx(k[0], k[1]) }},
	)
}

func (k kindSpec) fits(s slotKind) bool {
	switch s {
	case slotCallee:
		return k.level == 1
	case slotTarget:
		return k.isMem
	}
	return true
}

// c03Triples lists (parent, pslot, child, cslot, grandchild) index tuples once.
type triple struct{ p, ps, c, cs, g int }

var c03Triples []triple

func init() {
	for pi, p := range c03Kinds {
		for ps, pslot := range p.slots {
			for ci, c := range c03Kinds {
				if !c.fits(pslot) {
					continue
				}
				for cs, cslot := range c.slots {
					for gi, g := range c03Kinds {
						if !g.fits(cslot) {
							continue
						}
						c03Triples = append(c03Triples, triple{pi, ps, ci, cs, gi})
					}
				}
			}
		}
	}
}

var leafNames = []string{"a", "b", "c", "d", "e", "f", "g", "h"}

func fill(k kindSpec, special int, sub *gen.Node, next *int) *gen.Node {
	kids := make([]*gen.Node, len(k.slots))
	for i := range kids {
		if i == special && sub != nil {
			kids[i] = sub
		} else {
			kids[i] = gen.Id(leafNames[*next%len(leafNames)])
			*next++
		}
	}
	return k.mk(kids)
}

const c03Chunk = 64

func runC03Exhaustive(t *fw.T) {
	lo := t.Index * c03Chunk
	hi := lo + c03Chunk
	if hi > len(c03Triples) {
		hi = len(c03Triples)
	}
	for _, tr := range c03Triples[lo:hi] {
		nx := 0
		g := fill(c03Kinds[tr.g], -1, nil, &nx)
		c := fill(c03Kinds[tr.c], tr.cs, g, &nx)
		p := fill(c03Kinds[tr.p], tr.ps, c, &nx)
		checkAssembled(t, p, "depth3")
		t.Feature("parent/child", c03Kinds[tr.p].name+fmt.Sprintf("[%d]", tr.ps)+" > "+c03Kinds[tr.c].name)
	}
	if t.Index == 3 {
		tr := c03Triples[lo]
		nx := 0
		p := fill(c03Kinds[tr.p], tr.ps, fill(c03Kinds[tr.c], tr.cs, fill(c03Kinds[tr.g], -1, nil, &nx), &nx), &nx)
		t.Sample(map[string]any{"stratum": "exhaustive-depth3", "tree": p.S(), "compact": CfgCompact.Compile(&ast.Program{Statements: []ast.Statement{&ast.ExpressionStatement{Expression: toExpr(p)}}}).Code})
	}
}

// checkAssembled places the expression in two neutral statement contexts and round-trips it.
func checkAssembled(t *fw.T, e *gen.Node, label string) {
	// as initialiser, as right-hand side, and as a statement of its own (first in its statement; brace-less branch of an
	// if / else): an expression statement takes any expression, the printer has to keep `function` / `{` at its start
	// from being read as a declaration / a block
	prog := gen.Prog(gen.Let("v", e), gen.ExprStmt(gen.Asg("=", gen.Id("r"), e)), gen.ExprStmt(e),
		&gen.Node{K: gen.KIf, Kids: []*gen.Node{gen.Id("c"), gen.ExprStmt(e), gen.ExprStmt(e)}})
	want := prog.S()
	var ap *ast.Program
	// every fourth group of cases assembles operator nodes with tokens that carry the type only
	bareOperatorTokens = (t.Index/16)%4 == 3
	ok := t.Guard("assemble", nil, func() { ap = toProgram(prog) })
	if bareOperatorTokens {
		bareOperatorTokens = false
		label += "/operator tokens without text"
		t.Count("trees_assembled_with_type_only_operator_tokens", 1)
	}
	if !ok {
		return
	}
	checkRoundTrip(t, ap, want, label, func() string { return e.S() })
	t.Distinct(e.S())
}

// checkEditedAfterPrint: a tree that has already been printed is edited in place the way a transformation pass edits
// it (the operator of one binary node is replaced by another binary operator) and printed again. The edited tree is a
// tree like any other: its print must parse back to its (new) shape. Catches printers that remember something about
// a node from an earlier print (cached precedence, cached text).
func checkEditedAfterPrint(t *fw.T, r *rand.Rand, e *gen.Node) {
	var bins []*gen.Node
	e.Walk(func(n *gen.Node) {
		if n.K == gen.KBin {
			bins = append(bins, n)
		}
	})
	if len(bins) == 0 {
		return
	}
	prog := gen.Prog(gen.Let("v", e), gen.ExprStmt(gen.Asg("=", gen.Id("r"), e)))
	assembledBins = map[*gen.Node][]*ast.BinaryExpression{}
	defer func() { assembledBins = nil }()
	var ap *ast.Program
	if !t.Guard("assemble", nil, func() { ap = toProgram(prog) }) {
		return
	}
	// first print under every printer (result judged by the ordinary strata; here it only has to happen)
	if !t.Guard("first print", nil, func() {
		for _, k := range c03Printers {
			k.Compile(ap)
		}
	}) {
		return
	}
	for round := 0; round < 2; round++ {
		n := bins[r.IntN(len(bins))]
		op := gen.BinOps[r.IntN(len(gen.BinOps))]
		n.Op = op
		for _, b := range assembledBins[n] {
			b.Token = tk(opTypes[op], op)
			b.Operator = op
		}
		t.Count("trees_edited_after_a_print", 1)
		checkRoundTrip(t, ap, prog.S(), "edited-after-print", func() string { return e.S() })
	}
}

// literal operands: every operator kind x operand slot x every kind of primary expression (number shapes, strings with
// a line continuation, single- and multi-line backtick strings, array / object literals, function expressions, keywords
// literals), alone and one level down. A literal that spans several lines or ends in a digit / dot / brace is what the
// token after it sees; the depth-3 enumeration only has identifiers at its leaves.
var c03Atoms = []func() *gen.Node{
	func() *gen.Node { return gen.Num("0") },
	func() *gen.Node { return gen.Num("7") },
	func() *gen.Node { return gen.Num("1.5") },
	func() *gen.Node { return gen.Num("2e3") },
	func() *gen.Node { return gen.Num("0x1F") },
	func() *gen.Node { return gen.Num("0b101") },
	func() *gen.Node { return gen.Str("s") },
	func() *gen.Node { return gen.Str("") },
	func() *gen.Node { return gen.Str("a\\\nb") },
	func() *gen.Node { return &gen.Node{K: gen.KTpl, Text: "t"} },
	func() *gen.Node { return &gen.Node{K: gen.KTpl, Text: ""} },
	func() *gen.Node { return &gen.Node{K: gen.KTpl, Text: "a\nb"} },
	func() *gen.Node { return &gen.Node{K: gen.KTpl, Text: "a\r\nb\n"} },
	func() *gen.Node { return &gen.Node{K: gen.KTpl, Text: "\n"} },
	func() *gen.Node { return &gen.Node{K: gen.KArr} },
	func() *gen.Node { return &gen.Node{K: gen.KArr, Kids: []*gen.Node{gen.Id("q"), gen.Num("1")}} },
	func() *gen.Node { return &gen.Node{K: gen.KObj} },
	func() *gen.Node { return &gen.Node{K: gen.KObj, Kids: []*gen.Node{gen.Id("k"), gen.Num("1")}} },
	// every key form the parser produces: string, number, keyword-literal spelling, and an array literal (what the
	// parser makes of a computed key `{[q]: 1}`)
	func() *gen.Node {
		return &gen.Node{K: gen.KObj, Kids: []*gen.Node{gen.Str("s t"), gen.Num("1"), gen.Num("7"), gen.Id("a"), gen.Id("true"), gen.Num("2")}}
	},
	func() *gen.Node {
		return &gen.Node{K: gen.KObj, Kids: []*gen.Node{{K: gen.KArr, Kids: []*gen.Node{gen.Id("q")}}, gen.Num("1")}}
	},
	func() *gen.Node {
		return &gen.Node{K: gen.KFunc, Params: []string{"x"}, Kids: []*gen.Node{{K: gen.KReturn, Kids: []*gen.Node{gen.Id("x")}}}}
	},
	func() *gen.Node { return &gen.Node{K: gen.KFunc, Name: "g"} },
	func() *gen.Node { return &gen.Node{K: gen.KBool, Name: "true"} },
	func() *gen.Node { return &gen.Node{K: gen.KBool, Name: "false"} },
	func() *gen.Node { return &gen.Node{K: gen.KNull} },
}

type atomCase struct{ k, slot, atom int }

var c03AtomCases []atomCase

func init() {
	for ki, k := range c03Kinds {
		for si, sl := range k.slots {
			if sl == slotTarget {
				continue
			}
			for ai := range c03Atoms {
				c03AtomCases = append(c03AtomCases, atomCase{ki, si, ai})
			}
		}
	}
}

func runC03Atoms(t *fw.T) {
	ac := c03AtomCases[t.Index]
	k := c03Kinds[ac.k]
	nx := 0
	e := fill(k, ac.slot, c03Atoms[ac.atom](), &nx)
	checkAssembled(t, e, "literal-operand")
	if ac.k == 0 && ac.slot == 0 {
		// the primary expression on its own (as initialiser, right-hand side, statement, brace-less branch)
		checkAssembled(t, c03Atoms[ac.atom](), "literal-operand/bare")
	}
	t.Feature("operator kind x literal operand", fmt.Sprintf("%s[%d] %d", k.name, ac.slot, ac.atom))
	// one level down: the same node as operand of every unary / postfix / member kind and of one binary kind
	for _, pk := range c03Kinds {
		if len(pk.slots) != 1 && pk.name != "-" && pk.name != "call" && pk.name != "idx" {
			continue
		}
		if !k.fits(pk.slots[0]) {
			continue
		}
		nx = 0
		inner := fill(k, ac.slot, c03Atoms[ac.atom](), &nx)
		checkAssembled(t, fill(pk, 0, inner, &nx), "literal-operand")
	}
}

// random assembled expressions of larger depth, operands unrestricted except the quantifier's restrictions
func randAssembled(r *rand.Rand, d int, slot slotKind) *gen.Node {
	atom := func() *gen.Node {
		switch r.IntN(8) {
		case 0:
			return gen.Num([]string{"0", "1", "42", "1.5", "2e3", "0x1F"}[r.IntN(6)])
		case 1:
			return gen.Str([]string{"s", "", "two words"}[r.IntN(3)])
		case 2:
			return &gen.Node{K: gen.KArr, Kids: []*gen.Node{gen.Id("q")}}
		case 3:
			return &gen.Node{K: gen.KBool, Name: "true"}
		case 4:
			return c03Atoms[r.IntN(len(c03Atoms))]()
		default:
			return gen.Id(leafNames[r.IntN(len(leafNames))])
		}
	}
	if d <= 0 {
		if slot == slotTarget {
			return gen.Id(leafNames[r.IntN(len(leafNames))])
		}
		return atom()
	}
	for {
		k := c03Kinds[r.IntN(len(c03Kinds))]
		if !k.fits(slot) {
			if r.IntN(3) == 0 {
				if slot == slotTarget {
					return gen.Id(leafNames[r.IntN(len(leafNames))])
				}
				return atom()
			}
			continue
		}
		kids := make([]*gen.Node, len(k.slots))
		for i, s := range k.slots {
			kids[i] = randAssembled(r, d-1-r.IntN(2), s)
		}
		return k.mk(kids)
	}
}

func runC03Random(t *fw.T) {
	r := t.Rand()
	d := 3 + r.IntN(8)
	e := randAssembled(r, d, slotAny)
	checkAssembled(t, e, "random")
	if t.Index%4 == 0 {
		checkEditedAfterPrint(t, r, e)
	}
	if t.WantSample() && e.Size() < 14 {
		t.Sample(map[string]any{"stratum": "random-assembled", "tree": e.S(), "compact": CfgCompact.Compile(&ast.Program{Statements: []ast.Statement{&ast.ExpressionStatement{Expression: toExpr(e)}}}).Code})
	}
}

// parser-produced trees are free riders: parse a rendered G-syn program, then round-trip its tree
func runC03Parsed(t *fw.T) {
	r := t.Rand()
	g := gen.NewSyn(r, gen.SynOpts{ExprDepth: 2 + r.IntN(4), StmtDepth: 1 + r.IntN(3), MaxStmts: 1 + r.IntN(4)})
	prog := g.Program()
	l := stdLayouts[r.IntN(len(stdLayouts))]
	rd := gen.Render(prog, r, l.E, l.L)
	var po ParseOut
	if !t.Guard("parse", func() map[string]any { return map[string]any{"source": rd.Src} }, func() { po = parse(rd.Src, Mode{}) }) {
		return
	}
	if po.Err != nil {
		t.Inconclusive("source not accepted (C02's business)", rd.Src)
		return
	}
	want := norm.S(po.Prog)
	checkRoundTrip(t, po.Prog, want, "parsed", func() string { return gen.Describe(rd.Src) })
	t.Distinct(want)
}

func init() {
	n := (len(c03Triples) + c03Chunk - 1) / c03Chunk
	fw.Register(&fw.Property{
		ID: "C03", Level: "exploration",
		Rule: "trees assembled from ast.* nodes (no grouping nodes, token types set as a plugin would) are printed by 3 printers, re-parsed and compared by shape; then the re-parsed tree is printed again (fixed point, byte for byte). " +
			fmt.Sprintf("exhaustive-depth3 enumerates all %d (parent, operand slot, child, operand slot, grandchild) combinations over 25 operator kinds under the quantifier's restrictions; ", len(c03Triples)) +
			"random-assembled goes to depth 10; parsed-trees round-trips parser-produced trees. distinct = distinct expression shapes.",
		Assumptions: []string{
			"assembled expressions are placed in `let v = E;` and `r = E;` (statement-start context is not part of the quantifier)",
			"string operands are quote-free here (C07 owns string content)",
		},
		Strata: []*fw.Stratum{
			{Name: "exhaustive-depth3", Quick: n, Thorough: n, Exhaustive: true, Run: runC03Exhaustive},
			{Name: "literal-operands", Quick: len(c03AtomCases), Thorough: len(c03AtomCases), Exhaustive: true, Run: runC03Atoms},
			{Name: "random-assembled", Quick: 150000, Thorough: 1000000, Run: runC03Random},
			{Name: "parsed-trees", Quick: 30000, Thorough: 200000, Run: runC03Parsed},
		},
	})
}
