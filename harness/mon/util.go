package mon

import "reflect"

func walkNil(x any) bool {
	if x == nil {
		return true
	}
	v := reflect.ValueOf(x)
	return (v.Kind() == reflect.Ptr || v.Kind() == reflect.Interface) && v.IsNil()
}
