package mon

import (
	"fmt"
	"math/rand/v2"
	"strings"

	"github.com/xjslang/xjs/lexer"
	"github.com/xjslang/xjs/token"

	"verif/fw"
	"verif/gen"
)

// ---- C10: lexing is total and tokens tile the source with exact positions ---

type Finding struct {
	Clause, Key, What string
}

type lineIndex struct {
	starts []int // byte offset of the first byte of each line (line break = LF)
	n      int
}

func newLineIndex(src string) *lineIndex {
	li := &lineIndex{starts: []int{0}, n: len(src)}
	for i := 0; i < len(src); i++ {
		if src[i] == '\n' {
			li.starts = append(li.starts, i+1)
		}
	}
	return li
}

// off converts a 0-based (line, col) to a byte offset; ok=false if it does not denote a position of the source
// (a column may point one past the end of its line: the position just after the last byte).
func (li *lineIndex) off(p token.Position) (int, bool) {
	if p.Line < 0 || p.Line >= len(li.starts) || p.Column < 0 {
		return 0, false
	}
	o := li.starts[p.Line] + p.Column
	end := li.n
	if p.Line+1 < len(li.starts) {
		end = li.starts[p.Line+1] // may point at the first byte of the next line == one past the LF
	}
	if o > end {
		return o, false
	}
	return o, true
}

func (li *lineIndex) pos(off int) token.Position {
	// binary search
	lo, hi := 0, len(li.starts)-1
	for lo < hi {
		m := (lo + hi + 1) / 2
		if li.starts[m] <= off {
			lo = m
		} else {
			hi = m - 1
		}
	}
	return token.Position{Line: lo, Column: off - li.starts[lo]}
}

func isWS(c byte) bool { return c == ' ' || c == '\t' || c == '\r' || c == '\n' }
func isLetter(c byte) bool {
	return c == '_' || c == '$' || (c >= 'a' && c <= 'z') || (c >= 'A' && c <= 'Z')
}
func isDigit(c byte) bool { return c >= '0' && c <= '9' }

// skipTrivia consumes whitespace and // comments starting at i; reports whether a line break was crossed.
func skipTrivia(src string, i int) (int, bool) {
	nl := false
	for i < len(src) {
		c := src[i]
		if isWS(c) {
			if c == '\n' {
				nl = true
			}
			i++
			continue
		}
		if c == '/' && i+1 < len(src) && src[i+1] == '/' {
			i += 2
			for i < len(src) && src[i] != '\n' {
				i++
			}
			continue
		}
		break
	}
	return i, nl
}

// refStringEnd: offset of the closing quote (or len(src) if unterminated), scanning from the opening quote at i.
func refStringEnd(src string, i int, q byte, raw bool) (closing int, terminated bool) {
	j := i + 1
	for j < len(src) {
		c := src[j]
		if c == '\\' {
			j += 2
			continue
		}
		if c == q {
			return j, true
		}
		j++
	}
	return len(src), false
}

// refNumberEnd returns the end of the ECMAScript numeric literal starting at i when the text there is a
// well-formed literal of the subset followed by a non-identifier byte; ok=false otherwise (malformed shapes
// are only required to tile).
func refNumberEnd(src string, i int) (int, bool) {
	n := len(src)
	j := i
	digits := func(pred func(byte) bool) int {
		k := j
		for j < n && pred(src[j]) {
			j++
		}
		return j - k
	}
	if src[i] == '0' && i+1 < n && strings.IndexByte("xXbBoO", src[i+1]) >= 0 {
		j = i + 2
		var c int
		switch src[i+1] {
		case 'x', 'X':
			c = digits(func(b byte) bool { return isDigit(b) || (b >= 'a' && b <= 'f') || (b >= 'A' && b <= 'F') })
		case 'b', 'B':
			c = digits(func(b byte) bool { return b == '0' || b == '1' })
		default:
			c = digits(func(b byte) bool { return b >= '0' && b <= '7' })
		}
		if c == 0 {
			return 0, false
		}
	} else {
		digits(isDigit)
		if j-i > 1 && src[i] == '0' {
			return 0, false // legacy octal-like: subset boundary
		}
		if j < n && src[j] == '.' {
			if j+1 < n && isDigit(src[j+1]) {
				j++
				digits(isDigit)
			} else {
				return 0, false // "1." / "1.x": not in the subset
			}
		}
		if j < n && (src[j] == 'e' || src[j] == 'E') {
			k := j
			j++
			if j < n && (src[j] == '+' || src[j] == '-') {
				j++
			}
			if digits(isDigit) == 0 {
				j = k
				return 0, false
			}
		}
	}
	if j < n && (isLetter(src[j]) || isDigit(src[j])) {
		return 0, false // identifier directly after a number: malformed in ECMAScript
	}
	return j, true
}

var twoChar = map[string]token.Type{"==": token.EQ, "!=": token.NOT_EQ, "<=": token.LTE, ">=": token.GTE, "&&": token.AND, "||": token.OR,
	"++": token.INCREMENT, "--": token.DECREMENT, "+=": token.PLUS_ASSIGN, "-=": token.MINUS_ASSIGN}
var oneChar = map[byte]token.Type{'=': token.ASSIGN, '!': token.NOT, '<': token.LT, '>': token.GT, '+': token.PLUS, '-': token.MINUS,
	'*': token.MULTIPLY, '/': token.DIVIDE, '%': token.MODULO, ',': token.COMMA, ';': token.SEMICOLON, ':': token.COLON, '.': token.DOT,
	'(': token.LPAREN, ')': token.RPAREN, '{': token.LBRACE, '}': token.RBRACE, '[': token.LBRACKET, ']': token.RBRACKET}

var kwTypes = map[string]token.Type{"function": token.FUNCTION, "let": token.LET, "if": token.IF, "else": token.ELSE, "while": token.WHILE,
	"for": token.FOR, "return": token.RETURN, "true": token.TRUE, "false": token.FALSE, "null": token.NULL}

// LexCheck tokenizes src with the real lexer and checks the recorded token stream against the bytes.
// It returns the first finding (nil if none) and the number of tokens seen.
func LexCheck(src string) (*Finding, int, []token.Token) {
	return lexCheckOn(src, lexer.NewBuilder().Build(src), nil)
}

// lexCheckOn judges the token stream of lx (a lexer for src). extra: characters that a plugin of that lexer turns into
// one-byte operator tokens of the given types - everything the statement says holds for a lexer with such a plugin too.
func lexCheckOn(src string, lx *lexer.Lexer, extra map[byte]token.Type) (*Finding, int, []token.Token) {
	return lexCheckOnPlugin(src, lx, extra, false)
}

func lexCheckOnPlugin(src string, lx *lexer.Lexer, extra map[byte]token.Type, handBuilt bool) (*Finding, int, []token.Token) {
	li := newLineIndex(src)
	maxCalls := len(src) + 2
	cursor := 0 // every byte before cursor is accounted for
	var toks []token.Token
	for calls := 0; ; calls++ {
		if calls > maxCalls {
			return &Finding{"no-eof", "more tokens than bytes", fmt.Sprintf("no end-of-input token within len+2=%d requests", maxCalls)}, len(toks), toks
		}
		tok := lx.NextToken()
		toks = append(toks, tok)
		wantStart, nl := skipTrivia(src, cursor)
		f := func(clause, key, what string) (*Finding, int, []token.Token) {
			return &Finding{clause, key, fmt.Sprintf("%s (token #%d %v, expected lexeme at offset %d = %v)", what, len(toks)-1, tok, wantStart, li.pos(wantStart))}, len(toks), toks
		}
		if tok.Type == token.EOF {
			if wantStart != len(src) {
				return f("eof-position", "end-of-input before the end of the source", fmt.Sprintf("end-of-input reported while %d bytes remain", len(src)-wantStart))
			}
			so, ok := li.off(tok.Start)
			if !ok || so != len(src) {
				return f("eof-position", "end-of-input token not positioned at the end of the source", "end-of-input Start is not the end of the source")
			}
			eo, ok := li.off(tok.End)
			if !ok || eo != len(src) {
				return f("eof-position", "end-of-input token End not at the end of the source", "end-of-input End is not the end of the source")
			}
			// requested again, any number of times: same token at the same place
			for k := 0; k < 3; k++ {
				again := lx.NextToken()
				if again.Type != token.EOF || again.Start != tok.Start || again.End != tok.End {
					return f("eof-stability", "repeated request", fmt.Sprintf("request #%d after end-of-input returned %v", k+1, again))
				}
			}
			if len(toks) > 1 && tok.AfterNewline != nl {
				return f("after-newline", "eof", fmt.Sprintf("AfterNewline=%v but line break in the gap=%v", tok.AfterNewline, nl))
			}
			return nil, len(toks), toks
		}
		if wantStart >= len(src) {
			return f("phantom-token", tok.Type.String(), "a token is produced although only whitespace/comments remain")
		}
		so, ok := li.off(tok.Start)
		if !ok {
			return f("start-position", "not a source position", "Start does not denote a position inside the source")
		}
		if so != wantStart {
			key := "start != first byte of the lexeme"
			if so < wantStart {
				key = "start before the lexeme (byte consumed twice)"
			} else if strings.TrimLeft(src[wantStart:so], " \t\r\n") != "" {
				key = "start after the lexeme's first byte"
				if _, isTwo := twoChar[tok.Literal]; isTwo && so == wantStart+1 {
					key = "two-character operator starts at its second byte"
				}
			}
			return f("start-position", key, fmt.Sprintf("Start=%v is offset %d, lexeme begins at %d", tok.Start, so, wantStart))
		}
		// extent of the lexeme
		c := src[wantStart]
		var last int // offset of the last byte of the lexeme
		switch {
		case tok.Type == token.STRING || tok.Type == token.RAW_STRING:
			q := c
			if (tok.Type == token.STRING && q != '"' && q != '\'') || (tok.Type == token.RAW_STRING && q != '`') {
				return f("token-class", "string token not at a quote", "string token does not start at a quote")
			}
			closing, term := refStringEnd(src, wantStart, q, tok.Type == token.RAW_STRING)
			if !term {
				// a literal without closing quote extends to the end of the input; how it is typed (string or illegal) is
				// not the tiling property's business (C12 requires strict mode to reject it)
				closing = len(src) - 1
			}
			last = closing
		case tok.Type == token.IDENT || kwTypes[tok.Literal] == tok.Type && tok.Type != 0 && isLetter(c):
			if !isLetter(c) {
				return f("token-class", "identifier token not at a letter", "identifier token does not start at a letter")
			}
			j := wantStart
			for j < len(src) && (isLetter(src[j]) || isDigit(src[j])) {
				j++
			}
			last = j - 1
			if tok.Literal != src[wantStart:j] {
				return f("literal-slice", "identifier", fmt.Sprintf("Literal %q != source slice %q", tok.Literal, src[wantStart:j]))
			}
			wantType, isKw := kwTypes[tok.Literal]
			if isKw && tok.Type != wantType {
				return f("keyword-class", tok.Literal, "keyword not classified as such")
			}
			if !isKw && tok.Type != token.IDENT {
				return f("keyword-class", "non-keyword classified as keyword", fmt.Sprintf("%q is typed %v", tok.Literal, tok.Type))
			}
		case tok.Type == token.INT || tok.Type == token.FLOAT:
			if !isDigit(c) {
				return f("token-class", "number token not at a digit", "number token does not start at a digit")
			}
			eo, ok := li.off(tok.End)
			if !ok || eo < wantStart {
				return f("end-position", "number", "End does not denote a position at/after the lexeme")
			}
			// the token's own extent: [wantStart, wantStart+len(Literal))
			last = wantStart + len(tok.Literal) - 1
			if last >= len(src) || tok.Literal != src[wantStart:last+1] || len(tok.Literal) == 0 {
				return f("literal-slice", "number", fmt.Sprintf("Literal %q is not the source slice at its start", tok.Literal))
			}
			if refEnd, wf := refNumberEnd(src, wantStart); wf {
				if refEnd-1 != last {
					return f("number-extent", "well-formed literal split or over-read", fmt.Sprintf("numeric literal %q lexed as %q", src[wantStart:refEnd], tok.Literal))
				}
				isFloat := strings.ContainsAny(tok.Literal, ".eE") && !(len(tok.Literal) > 1 && strings.IndexByte("xX", tok.Literal[1]) >= 0)
				if isFloat != (tok.Type == token.FLOAT) {
					return f("number-class", "int/float", fmt.Sprintf("%q typed %v", tok.Literal, tok.Type))
				}
			}
		case tok.Type == token.ILLEGAL && (c == '"' || c == '\'' || c == '`'):
			// a literal whose closing quote is missing is reported as an illegal token spanning the rest of the input
			if closing, term := refStringEnd(src, wantStart, c, c == '`'); term {
				last = closing // typed illegal although terminated: still has to tile (C02 judges what the parser makes of it)
			} else {
				last = len(src) - 1
			}
		case tok.Type == token.ILLEGAL:
			last = wantStart // one source byte
		case extra != nil && extra[c] != 0:
			last = wantStart
			if tok.Type != extra[c] || tok.Literal != string(c) {
				return f("operator-class", "plugin "+string(c), fmt.Sprintf("%q (issued by a plugin) lexed as %v %q", c, tok.Type, tok.Literal))
			}
		default:
			// operators and delimiters
			two := ""
			if wantStart+1 < len(src) {
				two = src[wantStart : wantStart+2]
			}
			if tt, ok := twoChar[two]; ok {
				last = wantStart + 1
				if tok.Type != tt || tok.Literal != two {
					return f("operator-class", two, fmt.Sprintf("%q lexed as %v %q", two, tok.Type, tok.Literal))
				}
			} else if tt, ok := oneChar[c]; ok {
				last = wantStart
				if tok.Type != tt || tok.Literal != string(c) {
					return f("operator-class", string(c), fmt.Sprintf("%q lexed as %v %q", c, tok.Type, tok.Literal))
				}
			} else {
				return f("token-class", "unexpected type", fmt.Sprintf("byte %q produced token type %v", c, tok.Type))
			}
		}
		eo, ok := li.off(tok.End)
		if !ok || eo > len(src) {
			return f("end-position", "outside the source", fmt.Sprintf("End=%v is not a position of the source", tok.End))
		}
		if eo != last && eo != last+1 {
			key := "end before last byte"
			if eo > last+1 {
				key = "end beyond last byte + 1"
			}
			return f("end-position", key+" ("+classOf(tok.Type)+")", fmt.Sprintf("End=%v is offset %d, last byte of the lexeme is %d", tok.End, eo, last))
		}
		if len(toks) > 1 && tok.AfterNewline != nl && !(handBuilt && extra != nil && extra[c] != 0) {
			// (the flag of a token that a plugin filled in by hand is the plugin's business: it did not ask the lexer for it)
			return f("after-newline", fmt.Sprintf("flag=%v", tok.AfterNewline), fmt.Sprintf("AfterNewline=%v but line break in the gap=%v", tok.AfterNewline, nl))
		}
		cursor = last + 1
	}
}

func classOf(t token.Type) string {
	switch t {
	case token.STRING:
		return "string"
	case token.RAW_STRING:
		return "backtick string"
	case token.IDENT:
		return "identifier"
	case token.INT, token.FLOAT:
		return "number"
	case token.ILLEGAL:
		return "illegal"
	}
	if t >= token.FUNCTION && t <= token.NULL {
		return "keyword"
	}
	return "operator"
}

// ---- workloads ----

var soupFragments = []string{
	"\"", "'", "`", "\\", "\\\"", "\\'", "\\`", "\\\\", "\\n", "\\x", "\\x4", "\\x41", "\\u", "\\u0", "\\u00e", "\\u00e9", "\\u{", "\\u{1F", "\\u{1F600}", "\\u{110000}", "\\u{}",
	"0", "0x", "0X1f", "0b", "0b102", "0o", "0o78", "1", "12", "1.", "1.5", "1e", "1e+", "1e-3", "1E5", ".5", "09", "1_0", "1a",
	"//", "// c", "//\n", "/", "/*", "*/", "#", "@", "?", "~", "^", "&", "&&", "|", "||", "\x00", "\xff", "\xc3", "\xc3\xa9", "\xe2\x80\xa8", "é",
	"=", "==", "===", "!", "!=", "<", "<=", ">", ">=", "+", "++", "+=", "-", "--", "-=", "*", "%", ",", ";", ":", ".", "(", ")", "{", "}", "[", "]",
	"let", "function", "if", "else", "while", "for", "return", "true", "false", "null", "lets", "iff", "a", "b1", "$", "_", "x$y",
	"pow", "defer", "typeof", "PI", "mod", "unless", "of",
	" ", "  ", "\t", "\n", "\r", "\r\n", "\n\n",
	"\"a\nb\"", "'\n'", "\"\r\n\"", "`\n`",
	// byte sequences a "helpful" lexer might strip, skip or normalise: BOM, NBSP, other Unicode spaces and line
	// terminators, zero-width characters, numeric separators, HTML-like and hashbang comments, form feed / vertical tab
	"\xef\xbb\xbf", "\xef\xbb", "\xc2\xa0", "\xe2\x80\xa9", "\xe2\x80\x8b", "\xe3\x80\x80", "\x0b", "\x0c", "\x85", "1_000", "0x1_f", "1__0", "1_", "_1",
	"<!--", "-->", "#!", "#!x\n", "/**/", "/* c */", "\\\n", "\\\r\n", "0.", "0.e1", "0e", "00", "0b", "0B1", "0O7", "1n", "0xg", "\x7f", "\x1a",
}

// hostileStart returns a prefix that an input may begin with: the places where "start of input" special cases live.
func hostileStart(r *rand.Rand) string {
	return []string{"\xef\xbb\xbf", "\xef\xbb\xbf\xef\xbb\xbf", "#!/usr/bin/env node\n", "\x00", "\n", "\r\n", "\xff\xfe", "\xfe\xff", "\xef\xbb", " \xef\xbb\xbf", "//\xef\xbb\xbf\n", "\xc2\xa0"}[r.IntN(12)]
}

func genSoup(r *rand.Rand, n int) string {
	var sb strings.Builder
	if r.IntN(12) == 0 {
		sb.WriteString(hostileStart(r))
	}
	for i := 0; i < n; i++ {
		sb.WriteString(soupFragments[r.IntN(len(soupFragments))])
	}
	return sb.String()
}

var hotBytes = []byte("\x00\r\n\\\"'`/0xe.+-=&| \t19aZ_$!<>(){}[];:,*%")

func genBytes(r *rand.Rand, n int) string {
	b := make([]byte, n)
	for i := range b {
		if r.IntN(3) == 0 {
			b[i] = byte(r.IntN(256))
		} else {
			b[i] = hotBytes[r.IntN(len(hotBytes))]
		}
	}
	if r.IntN(12) == 0 {
		return hostileStart(r) + string(b)
	}
	return string(b)
}

// pluginLexCase: the same monitor on a lexer whose plugin issues '^' and '@' as one-byte operator tokens - built with
// the lexer's NewToken, with NewTokenAt, or by hand (a token value filled in by the plugin: type, text, positions) as
// the project's own examples do. Every other token is the lexer's, and every clause holds for the whole stream.
func pluginLexCase(t *fw.T, src string, style int) {
	wit := func() map[string]any {
		return map[string]any{"input": src, "input_quoted": fmt.Sprintf("%q", clip(src, 400)), "workload": "plugin tokens", "plugin_token_style": style}
	}
	var fd *Finding
	var ntok int
	if !t.Guard("lex with a token plugin", wit, func() {
		lb := lexer.NewBuilder()
		extra := map[byte]token.Type{'^': lb.RegisterTokenType("pow"), '@': lb.RegisterTokenType("at")}
		lb.UseTokenInterceptor(func(l *lexer.Lexer, next func() token.Token) token.Token {
			tt, ok := extra[l.CurrentChar]
			if !ok {
				return next()
			}
			lit := string(l.CurrentChar)
			switch style % 3 {
			case 0:
				tok := l.NewToken(tt, lit)
				l.ReadChar()
				return tok
			case 1:
				line, col := l.Line, l.Column
				l.ReadChar()
				tok := l.NewTokenAt(tt, lit, line, col)
				tok.End = tok.Start
				return tok
			}
			pos := token.Position{Line: l.Line, Column: l.Column}
			l.ReadChar()
			return token.Token{Type: tt, Literal: lit, Start: pos, End: pos}
		})
		fd, ntok, _ = lexCheckOnPlugin(src, lb.Build(src), extra, style%3 == 2)
	}) {
		return
	}
	t.Count("tokens_checked", ntok)
	t.Count("inputs_lexed_with_a_token_plugin", 1)
	if fd != nil {
		t.Violate(fd.Clause, "plugin tokens/"+fd.Key, fd.What+" in "+fmt.Sprintf("%q", clip(src, 200)), wit())
	}
}

func lexCase(t *fw.T, src string, label string) {
	var fd *Finding
	var ntok int
	wit := func() map[string]any {
		return map[string]any{"input": src, "input_quoted": fmt.Sprintf("%q", clip(src, 400)), "workload": label}
	}
	if t.Index%64 == 5 {
		// other builders with plugins are configured and used in this process (words registered as token types, operators,
		// interceptors): the plain lexer classifies words as before
		pluginNoise(t.Index / 64)
		t.Count("cases_preceded_by_plugin_activity_on_other_builders", 1)
	}
	if !t.Guard("lex", wit, func() { fd, ntok, _ = LexCheck(src) }) {
		return
	}
	t.Count("tokens_checked", ntok)
	t.Count("bytes_lexed", len(src))
	if fd != nil {
		w := wit()
		t.Violate(fd.Clause, fd.Key, fd.What+" in "+fmt.Sprintf("%q", clip(src, 160)), w)
	}
}

func init() {
	fw.Register(&fw.Property{
		ID: "C10", Level: "exploration",
		Rule: "each input is tokenized by the real lexer until end-of-input; the recorded stream is checked against the bytes: Start = first byte of the lexeme that follows the previous token's last byte after whitespace/comments (so no byte is skipped or read twice), End on/just after the last byte, identifier/keyword/number literal = source slice, keyword classification, maximal munch of well-formed numbers and identifiers, AfterNewline = line break in the gap, end-of-input at len(source) and stable under repeated requests, at most len+2 requests. distinct = distinct inputs.",
		Assumptions: []string{
			"line break = LF for line/column and AfterNewline (CRLF contains one); lone CR, U+2028, U+2029 are generated but judged as ordinary bytes (xjs does not treat them as line terminators; reported in DESIGN as an observation)",
			"string extents come from a reference scan: opening quote to the matching unescaped quote, else end of input",
			"malformed number shapes (0x, 1e+, 09, 1a) are only required to tile",
		},
		Strata: []*fw.Stratum{
			{Name: "bytes", Quick: 1200000, Thorough: 5000000, Run: func(t *fw.T) {
				r := t.Rand()
				n := r.IntN(40)
				if r.IntN(20) == 0 {
					n = r.IntN(4097)
				}
				src := genBytes(r, n)
				lexCase(t, src, "bytes")
				t.Distinct(src)
				for i := 0; i < len(src) && i < 64; i++ {
					t.Feature("byte-values-seen", fmt.Sprintf("%02x", src[i]))
				}
			}},
			{Name: "soup", Quick: 1600000, Thorough: 6000000, Run: func(t *fw.T) {
				r := t.Rand()
				src := genSoup(r, 1+r.IntN(14))
				lexCase(t, src, "soup")
				t.Distinct(src)
				if t.WantSample() {
					t.Sample(map[string]any{"stratum": "soup", "input": fmt.Sprintf("%q", src)})
				}
			}},
			{Name: "plugin-tokens", Quick: 200000, Thorough: 1000000, Run: func(t *fw.T) {
				r := t.Rand()
				var sb strings.Builder
				for i, n := 0, 1+r.IntN(12); i < n; i++ {
					if r.IntN(3) == 0 {
						sb.WriteString(fw.Pick(r, []string{"^", "@", " ^ ", "\n^", "^\n", "// c\n  ^ ", "@@", "^// c\n", "\n\n@ ", "^(", ")^"}))
					} else {
						sb.WriteString(soupFragments[r.IntN(len(soupFragments))])
					}
				}
				src := sb.String()
				pluginLexCase(t, src, t.Index/16)
				t.Distinct(src)
			}},
			{Name: "truncations", Quick: 30000, Thorough: 200000, Run: func(t *fw.T) {
				// every prefix of a short fragment sequence: inputs ending inside every kind of literal / escape / operator
				r := t.Rand()
				src := genSoup(r, 2+r.IntN(6))
				for i := 0; i <= len(src); i++ {
					lexCase(t, src[:i], "truncation")
				}
				t.Distinct(src)
				t.Count("prefixes", len(src)+1)
			}},
			{Name: "programs", Quick: 60000, Thorough: 200000, Run: func(t *fw.T) {
				r := t.Rand()
				g := gen.NewSyn(r, gen.SynOpts{ExprDepth: 2 + r.IntN(4), StmtDepth: 1 + r.IntN(3), MaxStmts: 1 + r.IntN(5), NumDot: true})
				prog := g.Program()
				l := stdLayouts[r.IntN(len(stdLayouts))]
				if r.IntN(3) == 0 {
					l = randomLayout(r)
				}
				rd := gen.Render(prog, r, l.E, l.L)
				lexCase(t, rd.Src, "program")
				if r.IntN(4) == 0 {
					lexCase(t, hostileStart(r)+rd.Src, "program after a hostile start (BOM, hashbang, NUL, ...)")
				}
				checkAgainstTokenTable(t, rd)
				t.Distinct(rd.Src)
			}},
			{Name: "native-fuzzing", Quick: 0, Thorough: 1, Run: func(t *fw.T) {
				runNativeFuzz(t, "FuzzLex", 20000000, func(in string) *Finding { fd, _, _ := LexCheck(in); return fd })
			}},
			{Name: "stress-64k", Quick: 32, Thorough: 256, Run: func(t *fw.T) {
				r := t.Rand()
				var src string
				if r.IntN(2) == 0 {
					src = genSoup(r, 20000)
				} else {
					src = genBytes(r, 65536)
				}
				if len(src) > 65536 {
					src = src[:65536]
				}
				lexCase(t, src, "stress")
				t.Distinct(src)
			}},
		},
	})
}

// checkAgainstTokenTable compares the lexer's stream with the renderer's ground-truth token table.
func checkAgainstTokenTable(t *fw.T, rd *gen.Rendered) {
	lx := lexer.NewBuilder().Build(rd.Src)
	for i, gt := range rd.Toks {
		tok := lx.NextToken()
		if tok.Type == token.EOF {
			t.Violate("token-table", "early end-of-input", fmt.Sprintf("end-of-input after %d of %d tokens", i, len(rd.Toks)), map[string]any{"input": rd.Src})
			return
		}
		if tok.Start.Line != gt.Line || tok.Start.Column != gt.Col {
			t.Violate("token-table", "start "+classOf(tok.Type), fmt.Sprintf("token %q: Start=%v, renderer placed it at %d:%d", gt.Text, tok.Start, gt.Line, gt.Col), map[string]any{"input": rd.Src})
			return
		}
		if i > 0 && tok.AfterNewline != gt.NLBefore {
			t.Violate("token-table", "after-newline", fmt.Sprintf("token %q: AfterNewline=%v, renderer wrote line break=%v", gt.Text, tok.AfterNewline, gt.NLBefore), map[string]any{"input": rd.Src})
			return
		}
	}
	if tok := lx.NextToken(); tok.Type != token.EOF {
		t.Violate("token-table", "extra token", fmt.Sprintf("token %v after the last rendered token", tok), map[string]any{"input": rd.Src})
	}
}
