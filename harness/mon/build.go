package mon

import (
	"github.com/xjslang/xjs/ast"
	"github.com/xjslang/xjs/token"

	"verif/gen"
)

var opTypes = map[string]token.Type{
	"=": token.ASSIGN, "+=": token.PLUS_ASSIGN, "-=": token.MINUS_ASSIGN, "+": token.PLUS, "-": token.MINUS,
	"*": token.MULTIPLY, "/": token.DIVIDE, "%": token.MODULO, "==": token.EQ, "!=": token.NOT_EQ,
	"<": token.LT, ">": token.GT, "<=": token.LTE, ">=": token.GTE, "&&": token.AND, "||": token.OR,
	"!": token.NOT, "++": token.INCREMENT, "--": token.DECREMENT,
}

func tk(tt token.Type, lit string) token.Token { return token.Token{Type: tt, Literal: lit} }

// bareOperatorTokens (C03, single goroutine): operator nodes are assembled with a token that carries the type only, the
// way a plugin does that fills in the struct fields the printers document (Operator, Left, Right, ...) and sets the
// token type for the precedence table. Literal and identifier nodes keep their token text (it is their content).
var bareOperatorTokens bool

// otk is the token of an operator node.
func otk(tt token.Type, lit string) token.Token {
	if bareOperatorTokens {
		return token.Token{Type: tt}
	}
	return token.Token{Type: tt, Literal: lit}
}

func ident(name string) *ast.Identifier {
	return &ast.Identifier{Token: tk(token.IDENT, name), Value: name}
}

func isFloatText(s string) bool {
	if len(s) > 1 && s[0] == '0' && (s[1] == 'x' || s[1] == 'X' || s[1] == 'b' || s[1] == 'B' || s[1] == 'o' || s[1] == 'O') {
		return false
	}
	for i := 0; i < len(s); i++ {
		if s[i] == '.' || s[i] == 'e' || s[i] == 'E' {
			return true
		}
	}
	return false
}

// toExpr assembles an xjs expression from a generated tree the way a plugin
// would: public struct fields, token types set, no positions, no grouping nodes.
// assembledBins, when non-nil (C03's edit-after-print cases only; single goroutine), records which ast nodes were
// assembled for which generated binary node, so that the same operator edit can be made on both trees.
var assembledBins map[*gen.Node][]*ast.BinaryExpression

func toExpr(n *gen.Node) ast.Expression {
	switch n.K {
	case gen.KIdent:
		return ident(n.Name)
	case gen.KNum:
		if isFloatText(n.Text) {
			return &ast.FloatLiteral{Token: tk(token.FLOAT, n.Text)}
		}
		return &ast.IntegerLiteral{Token: tk(token.INT, n.Text)}
	case gen.KStr:
		return &ast.StringLiteral{Token: tk(token.STRING, n.Text), Value: n.Text}
	case gen.KTpl:
		return &ast.MultiStringLiteral{Token: tk(token.RAW_STRING, n.Text), Value: n.Text}
	case gen.KBool:
		if n.Name == "true" {
			return &ast.BooleanLiteral{Token: tk(token.TRUE, "true"), Value: true}
		}
		return &ast.BooleanLiteral{Token: tk(token.FALSE, "false"), Value: false}
	case gen.KNull:
		return &ast.NullLiteral{Token: tk(token.NULL, "null")}
	case gen.KArr:
		a := &ast.ArrayLiteral{Token: tk(token.LBRACKET, "["), RBracket: tk(token.RBRACKET, "]"), Elements: []ast.Expression{}}
		for _, k := range n.Kids {
			a.Elements = append(a.Elements, toExpr(k))
		}
		return a
	case gen.KObj:
		o := &ast.ObjectLiteral{Token: tk(token.LBRACE, "{"), RBrace: tk(token.RBRACE, "}"), Properties: []ast.ObjectProperty{}}
		for i := 0; i+1 < len(n.Kids); i += 2 {
			o.Properties = append(o.Properties, ast.ObjectProperty{Key: toExpr(n.Kids[i]), Value: toExpr(n.Kids[i+1])})
		}
		return o
	case gen.KFunc:
		f := &ast.FunctionExpression{Token: tk(token.FUNCTION, "function"), Parameters: []*ast.Identifier{}}
		if n.Name != "" {
			f.Name = ident(n.Name)
		}
		for _, p := range n.Params {
			f.Parameters = append(f.Parameters, ident(p))
		}
		f.Body = toBlock(n.Kids)
		return f
	case gen.KUn:
		return &ast.UnaryExpression{Token: otk(opTypes[n.Op], n.Op), Operator: n.Op, Right: toExpr(n.Kids[0])}
	case gen.KPost:
		return &ast.PostfixExpression{Token: otk(opTypes[n.Op], n.Op), Operator: n.Op, Left: toExpr(n.Kids[0])}
	case gen.KBin:
		b := &ast.BinaryExpression{Token: otk(opTypes[n.Op], n.Op), Operator: n.Op, Left: toExpr(n.Kids[0]), Right: toExpr(n.Kids[1])}
		if assembledBins != nil {
			assembledBins[n] = append(assembledBins[n], b)
		}
		return b
	case gen.KAsg:
		if n.Op == "=" {
			return &ast.AssignmentExpression{Token: otk(token.ASSIGN, "="), Left: toExpr(n.Kids[0]), Value: toExpr(n.Kids[1])}
		}
		return &ast.CompoundAssignmentExpression{Token: otk(opTypes[n.Op], n.Op), Operator: n.Op[:1], Left: toExpr(n.Kids[0]), Value: toExpr(n.Kids[1])}
	case gen.KCall:
		c := &ast.CallExpression{Token: otk(token.LPAREN, "("), Function: toExpr(n.Kids[0]), Arguments: []ast.Expression{}}
		for _, a := range n.Kids[1:] {
			c.Arguments = append(c.Arguments, toExpr(a))
		}
		return c
	case gen.KDot:
		return &ast.MemberExpression{Token: otk(token.DOT, "."), Object: toExpr(n.Kids[0]), Property: ident(n.Name)}
	case gen.KIdx:
		return &ast.MemberExpression{Token: otk(token.LBRACKET, "["), Object: toExpr(n.Kids[0]), Property: toExpr(n.Kids[1]), Computed: true}
	case gen.KLet:
		le := &ast.LetExpression{Token: tk(token.LET, "let"), Name: ident(n.Name)}
		if len(n.Kids) > 0 {
			le.Value = toExpr(n.Kids[0])
		}
		return le
	}
	panic("toExpr: unsupported kind")
}

func toBlock(stmts []*gen.Node) *ast.BlockStatement {
	b := &ast.BlockStatement{Token: tk(token.LBRACE, "{"), RBrace: tk(token.RBRACE, "}"), Statements: []ast.Statement{}}
	for _, s := range stmts {
		b.Statements = append(b.Statements, toStmt(s))
	}
	return b
}

func toStmt(n *gen.Node) ast.Statement {
	switch n.K {
	case gen.KLet:
		ls := &ast.LetStatement{Token: tk(token.LET, "let"), Name: ident(n.Name)}
		if len(n.Kids) > 0 {
			ls.Value = toExpr(n.Kids[0])
		}
		return ls
	case gen.KFuncDecl:
		f := &ast.FunctionDeclaration{Token: tk(token.FUNCTION, "function"), Name: ident(n.Name), Parameters: []*ast.Identifier{}}
		for _, p := range n.Params {
			f.Parameters = append(f.Parameters, ident(p))
		}
		f.Body = toBlock(n.Kids)
		return f
	case gen.KReturn:
		r := &ast.ReturnStatement{Token: tk(token.RETURN, "return")}
		if len(n.Kids) > 0 {
			r.ReturnValue = toExpr(n.Kids[0])
		}
		return r
	case gen.KIf:
		s := &ast.IfStatement{Token: tk(token.IF, "if"), Condition: toExpr(n.Kids[0]), ThenBranch: toStmt(n.Kids[1])}
		if len(n.Kids) > 2 && n.Kids[2] != nil {
			s.ElseBranch = toStmt(n.Kids[2])
		}
		return s
	case gen.KWhile:
		return &ast.WhileStatement{Token: tk(token.WHILE, "while"), Condition: toExpr(n.Kids[0]), Body: toStmt(n.Kids[1])}
	case gen.KFor:
		s := &ast.ForStatement{Token: tk(token.FOR, "for"), Body: toStmt(n.Kids[3])}
		if n.Kids[0] != nil {
			s.Init = toExpr(n.Kids[0])
		}
		if n.Kids[1] != nil {
			s.Condition = toExpr(n.Kids[1])
		}
		if n.Kids[2] != nil {
			s.Update = toExpr(n.Kids[2])
		}
		return s
	case gen.KBlock:
		return toBlock(n.Kids)
	case gen.KExprStmt:
		return &ast.ExpressionStatement{Expression: toExpr(n.Kids[0])}
	}
	panic("toStmt: unsupported kind")
}

func toProgram(n *gen.Node) *ast.Program {
	p := &ast.Program{Statements: []ast.Statement{}}
	for _, s := range n.Kids {
		p.Statements = append(p.Statements, toStmt(s))
	}
	return p
}
