package mon

import (
	"fmt"
	"strings"

	"verif/fw"
	"verif/gen"
	"verif/jseng"
)

// ---- C01: transpilation preserves program behaviour ------------------------

func cfgClass(c Cfg) string {
	switch {
	case !c.Pretty:
		return "compact"
	case c.NoSemi:
		return "pretty/nosemi"
	}
	return "pretty/semi"
}

func sameRun(a, b jseng.RunResult) bool {
	if a.Completion != b.Completion || len(a.Out) != len(b.Out) {
		return false
	}
	for i := range a.Out {
		if a.Out[i] != b.Out[i] {
			return false
		}
	}
	return true
}

func describeRun(r jseng.RunResult) string {
	o := r.Out
	if len(o) > 12 {
		o = append(append([]string{}, o[:12]...), fmt.Sprintf("…(%d values)", len(r.Out)))
	}
	return "[" + strings.Join(o, " ") + "] " + r.Completion
}

// checkBehaviour compiles src under cfgs and compares executions of the outputs with the execution of src itself.
func checkBehaviour(t *fw.T, src string, layout string, cfgs []Cfg) {
	wit := func() map[string]any { return map[string]any{"source": src, "layout": layout} }
	var po ParseOut
	// every third group of cases is parsed by a parser built from a long-lived builder that served other modes before
	recycled := (t.Index/16)%3 == 2
	observed := (t.Index/16)%3 == 1 // ... and every third group under observing plugins (see parseObserved)
	if !t.Guard("parse", wit, func() {
		switch {
		case recycled:
			po = parseRecycled(src, t.Index/16)
		case observed:
			po = parseObserved(src, t.Index/16)
		default:
			po = parse(src, Mode{})
		}
	}) {
		return
	}
	if recycled {
		t.Count("programs_parsed_by_a_long_lived_reconfigured_builder", 1)
	}
	type outp struct {
		cfgs []Cfg
		code string
	}
	var outs []outp
	index := map[string]int{}
	if po.Err == nil {
		for _, c := range cfgs {
			c := c
			var code, codeMap string
			ok := t.Guard("compile "+c.String(), func() map[string]any { w := wit(); w["config"] = c.String(); return w }, func() {
				cm := c
				cm.Map = true
				if (t.Index/16)%2 == 1 {
					// every second group of cases compiles with this worker's long-lived Compiler values
					code = c.CompileReused(po.Prog).Code
					codeMap = cm.CompileReused(po.Prog).Code
				} else {
					code = c.Compile(po.Prog).Code
					codeMap = cm.Compile(po.Prog).Code
				}
			})
			if !ok {
				continue
			}
			if code != codeMap {
				t.Violate("source-map-changes-code", cfgClass(c), "requesting a source map changes the code ("+c.String()+"): "+firstDiff(code, codeMap), wit())
				continue
			}
			if i, seen := index[code]; seen {
				outs[i].cfgs = append(outs[i].cfgs, c)
			} else {
				index[code] = len(outs)
				outs = append(outs, outp{[]Cfg{c}, code})
			}
		}
	}
	codes := []string{src}
	for _, o := range outs {
		codes = append(codes, o.code)
	}
	res, err := engine(t).Run(codes, 1500)
	if err != nil {
		t.Inconclusive("reference engine (node) unavailable", err.Error())
		return
	}
	ref := res[0]
	t.Count("engine_runs", len(codes))
	switch {
	case ref.Completion == "syntax":
		t.Count("oracle_selfcheck_failures", 1)
		t.Inconclusive("oracle self-check: the engine rejects the generated source (not a program of the subset)", gen.Describe(src)+" => "+ref.Msg)
		return
	case ref.Completion == "timeout":
		t.Inconclusive("source program hit the engine's time backstop", "")
		return
	}
	if po.Err != nil {
		t.Inconclusive("source not accepted by xjs although the engine runs it (C02's business)", gen.Describe(src)+" => "+po.Errors[0].Message)
		return
	}
	t.Count("programs", 1)
	t.Feature("completions", ref.Completion)
	for i, o := range outs {
		got := res[i+1]
		t.Count("disagreements_checked", len(o.cfgs))
		if got.Completion == "timeout" {
			// The 1.5 s backstop is wall clock and may fire on a loaded machine. Programs are terminating by construction
			// (a few hundred loop iterations at most), so the pair is run once more, alone, with a 10 s limit: an output
			// that still does not finish while its source does is a behaviour difference (and has to reproduce a third
			// time in the fresh-process re-check before it is reported); anything else stays inconclusive.
			// (at most 6 such long re-runs per worker process: a change that makes many outputs loop is established by the
			// first few, the rest are counted as inconclusive so that the run itself stays bounded)
			n, _ := t.W.State["c01-slow-reruns"].(int)
			if n >= 6 {
				t.Inconclusive("compiled program hit the engine's time backstop (long re-run budget of this worker used up)", "")
				continue
			}
			t.W.State["c01-slow-reruns"] = n + 1
			slow, err := engine(t).Run([]string{src, o.code}, 10000)
			if err == nil && len(slow) == 2 && sameRun(slow[0], ref) && slow[1].Completion == "timeout" {
				w := wit()
				w["config"] = o.cfgs[0].String()
				w["output"] = o.code
				w["source_run"] = describeRun(ref)
				t.Violate("behaviour-differs", cfgClass(o.cfgs[0])+"/output does not terminate", fmt.Sprintf("%s output does not terminate within 10 s although the source completes (%s)", o.cfgs[0], describeRun(ref)), w)
				continue
			}
			if err != nil || len(slow) != 2 || slow[1].Completion == "timeout" || slow[0].Completion == "timeout" {
				t.Inconclusive("compiled program hit the engine's time backstop", gen.Describe(src)+" ==> "+clip(o.code, 300))
				continue
			}
			got = slow[1]
		}
		if sameRun(ref, got) {
			continue
		}
		// re-run both in fresh contexts before calling it a violation
		again, err := engine(t).Run([]string{src, o.code}, 1500)
		if err != nil || !sameRun(again[0], ref) || sameRun(again[0], again[1]) {
			t.Inconclusive("difference did not reproduce on a second engine run", "")
			continue
		}
		kind := "printed values differ"
		switch {
		case got.Completion == "syntax":
			kind = "output is not JavaScript"
		case got.Completion != ref.Completion:
			kind = "completion " + compKind(ref.Completion) + " -> " + compKind(got.Completion)
		}
		w := wit()
		w["config"] = o.cfgs[0].String()
		w["output"] = o.code
		w["source_run"] = describeRun(ref)
		w["output_run"] = describeRun(got)
		w["engine_message"] = got.Msg
		t.Violate("behaviour-differs", cfgClass(o.cfgs[0])+"/"+kind, fmt.Sprintf("%s output behaves differently (%s): source %s, output %s %s", o.cfgs[0], kind, describeRun(ref), describeRun(got), got.Msg), w)
	}
}

func compKind(c string) string {
	if strings.HasPrefix(c, "throw:") {
		return c
	}
	return c
}

func c01Cfgs(t *fw.T) []Cfg {
	all := AllCodeCfgs()
	if t.Thorough() {
		return all
	}
	r := t.Rand()
	return []Cfg{all[0], CfgPretty, CfgPrettyTabN, all[1+r.IntN(20)], all[1+r.IntN(20)], all[1+r.IntN(20)]}
}

func runC01(t *fw.T) {
	r := t.Rand()
	g := gen.NewExec(r)
	prog := g.Program()
	nl := 2
	if t.Thorough() {
		nl = 3
	}
	cfgs := c01Cfgs(t)
	for k := 0; k < nl; k++ {
		var l NamedLayout
		switch k {
		case 0:
			l = stdLayouts[r.IntN(3)]
		case 1:
			l = stdLayouts[3+r.IntN(len(stdLayouts)-3)]
		default:
			l = randomLayout(r)
		}
		rd := gen.Render(prog, r, l.E, l.L)
		checkBehaviour(t, rd.Src, l.Name, cfgs)
		t.Distinct(rd.Src)
		if k == 0 && t.WantSample() && len(rd.Src) < 400 {
			t.Sample(map[string]any{"stratum": "programs", "layout": l.Name, "source": rd.Src})
		}
	}
	for _, c := range cfgs {
		t.Feature("configs", c.String())
	}
	kinds := map[gen.Kind]string{gen.KLet: "let", gen.KFuncDecl: "function declaration", gen.KReturn: "return", gen.KIf: "if", gen.KWhile: "while", gen.KFor: "for", gen.KBlock: "block",
		gen.KFunc: "function expression", gen.KArr: "array literal", gen.KObj: "object literal", gen.KTpl: "backtick string", gen.KStr: "string", gen.KCall: "call", gen.KDot: "member .", gen.KIdx: "member []"}
	prog.Walk(func(n *gen.Node) {
		if n == nil {
			return
		}
		switch n.K {
		case gen.KBin, gen.KAsg:
			t.Feature("operators executed", n.Op)
		case gen.KUn:
			t.Feature("operators executed", "prefix "+n.Op)
		case gen.KPost:
			t.Feature("operators executed", "postfix "+n.Op)
		case gen.KFor:
			shape := ""
			for i := 0; i < 3; i++ {
				if n.Kids[i] == nil {
					shape += "-"
				} else {
					shape += "x"
				}
			}
			t.Feature("for-header shapes (init,test,update)", shape)
		}
		if k, ok := kinds[n.K]; ok {
			t.Feature("constructs executed", k)
		}
	})
}

// hand-written hazard programs, each under every configuration
var c01Hazards = []string{
	"let a = 5; let b = 3; print(a - -b); print(a - --b); print(a + ++b); print(- -a); print(-(-a)); print(a-- - b); print(a++ + b);",
	"let x = 1\nlet y = x\n++x\nprint(x)\nprint(y)",
	"function f() {\n  return\n  42\n}\nprint(f())",
	"let f = function(n) { return n + 1 }\nlet a = f\n(2)\nprint(a)",
	"let a = [1,2,3]\nlet i = 0\nlet b = a\n[i]\nprint(b)",
	"let s = 'he said \"hi\"'; print(s); print(\"it's\"); print('\\x22\\x5c\\x0a'); print(\"\\u0022\\u{5c}\\u000a\");",
	"print(`a\\`b`); print(`x\\\\`); print(`l1  \nl2`); let v = 2; print(`v=${v}`);",
	"print(1 .toString()); print(1.5.toFixed(1)); print(255 .toString(16)); print(1e3.toString());",
	"let o = {a: 1, 'b c': 2, 3: 4}; print(o); ({a: 1}).a; print((function() { return 7 })());",
	"if (1 < 2) print('t'); else print('f')\nif (2 < 1) print('t'); else if (1) print('e'); else print('f')",
	"let i = 0; while (i < 3) i++\nprint(i); for (let j = 0; j < 2; j++) print(j)\nfor (;i < 5;) { i += 1 }\nprint(i)",
	"let a = 1\nlet b = 2\nlet c = a\n-b\nprint(c)\nlet d = a\n+b\nprint(d)",
	"let t = 1;\n`x`\nprint(t)",
	"print(1 < 2 < 3); print(3 > 2 > 1); print(1 == 1 == 1); print(2 * 3 % 4 / 5); print(1 + 2 * 3 - 4 / 2); print(!1 == 0); print(-2 * -3);",
	"let x = 10; x += 5; x -= 3; print(x); let y = x = 4; print(y); let o = {n: 1}; o.n += 2; o['n'] -= 1; print(o.n);",
	"print(notDeclared)",
	"print(1); null.x; print(2)",
	"print(z); let z = 1",
	"function outer() { function inner() { return 1 } return inner() + 1 } print(outer())",
	"// leading comment\nprint(1) // trailing\n// own line\n\n\nprint(2)\n// before end",
	"print(0755); print(010 + 1); print(00); print(007); print(0x1F); print(0b101); print(0o17); print(1e3); print(5 .toString() + 1.5.toFixed(1));",
	"let o = {\"9007199254740993\": \"alice\", \"12345678901234567890123\": \"b\", \"1e21\": 1, \"010\": 2, \"0x10\": 3, \"1.0\": 4, \".5\": 5, \"-1\": 6, \"7\": 7, \"a-b\": 8, \"if\": 9, '': 10};\nprint(Object.keys(o).join(\"|\")); print(o[\"9007199254740993\"]); print(o[\"1e21\"]); print(o[\"010\"]); print(o[8]); print(o[\"\"]);",
	"function f(o, a, b) { if (o) if (a) print(1); else { if (b) print(2) } else print(3) }\nf(0,0,0); f(1,0,0); f(1,0,1); f(1,1,0); f(0,1,1);\nfunction g(o, a, b) { if (o) { if (a) print(4) } else if (b) print(5); else print(6) }\ng(0,0,0); g(0,0,1); g(1,0,0); g(1,1,0);\nfunction h(a, b) { if (a) if (b) print(7); else print(8) }\nh(0,0); h(1,0); h(1,1); h(0,1);",
}

// control-flow shapes: statements nested without and with braces (if / else chains, dangling else in every position,
// loops with brace-less bodies, blocks, early returns), written directly as text - the source is its own reference, so no
// tree model is needed - with a unique print marker at every leaf, and executed under all 16 assignments of four
// conditions. Which `if` an `else` belongs to, and where a brace-less body ends, decide which markers are printed.
func flowShape(r interface{ IntN(int) int }, d int, next *int, inLoop bool) string {
	leaf := func() string {
		*next++
		return fmt.Sprintf("print(%d)", *next)
	}
	sep := func() string { return []string{";", ";", "\n", ";\n", " ;"}[r.IntN(5)] }
	cond := func() string {
		c := fmt.Sprintf("c%d", r.IntN(4))
		switch r.IntN(6) {
		case 0:
			return "!" + c
		case 1:
			return c + " && " + fmt.Sprintf("c%d", r.IntN(4))
		}
		return c
	}
	if d <= 0 {
		return leaf() + sep()
	}
	sub := func() string { return flowShape(r, d-1-r.IntN(2), next, inLoop) }
	switch r.IntN(12) {
	case 0, 1:
		return "if (" + cond() + ") " + sub()
	case 2, 3, 4:
		return "if (" + cond() + ") " + sub() + []string{" ", "\n", ""}[r.IntN(3)] + "else " + sub()
	case 5:
		return "if (" + cond() + ") {" + sub() + "} else " + sub()
	case 6:
		return "if (" + cond() + ") " + sub() + " else {" + sub() + "}"
	case 7:
		n := r.IntN(4)
		out := "{"
		for i := 0; i < n; i++ {
			out += " " + sub()
		}
		return out + " }"
	case 8:
		*next++
		v := fmt.Sprintf("i%d", *next)
		return "for (let " + v + " = 0; " + v + " < 2; " + v + "++) " + flowShape(r, d-1, next, true)
	case 9:
		*next++
		v := fmt.Sprintf("w%d", *next)
		return "{ let " + v + " = 0;\nwhile (" + v + "++ < 2) " + flowShape(r, d-1, next, true) + " }"
	case 10:
		if r.IntN(2) == 0 {
			return "if (" + cond() + ") return" + []string{";", "\n", " " + fmt.Sprint(*next) + ";"}[r.IntN(3)]
		}
		return leaf() + sep()
	}
	return leaf() + sep()
}

func runC01Flow(t *fw.T) {
	r := t.Rand()
	next := 0
	var sb strings.Builder
	sb.WriteString("function f(c0, c1, c2, c3) {\n")
	for i, n := 0, 1+r.IntN(3); i < n; i++ {
		sb.WriteString(flowShape(r, 1+r.IntN(4), &next, false))
		sb.WriteString("\n")
	}
	sb.WriteString("}\n")
	for a := 0; a < 16; a++ {
		fmt.Fprintf(&sb, "print(\"#%d\"); print(f(%d, %d, %d, %d));\n", a, a&1, a>>1&1, a>>2&1, a>>3&1)
	}
	src := sb.String()
	checkBehaviour(t, src, "control-flow-shape", c01Cfgs(t))
	t.Distinct(src)
	if t.WantSample() && len(src) < 900 {
		t.Sample(map[string]any{"stratum": "control-flow-shapes", "source": src})
	}
}

// programs at the boundary of the subset: spellings that the pinned parser rejects (decimal integers of 2^63 and more,
// written where the printer treats integer and fractional literals differently). While the parser rejects them they are
// outside the premise and only counted; a parser that accepts them owes them the same behaviour as any other program.
var c01Boundary = []string{
	"print(9223372036854775808 .toString(2))", "print(18446744073709551616 .toString(16))", "let o = {}\nprint(99999999999999999999999 .constructor == o.x)",
	"print(9223372036854775808)", "print(18446744073709551616 + 1)", "let b = 9223372036854775808\nprint(b . toString())", "print([18446744073709551616][0] .toFixed(0))",
	"print(123456789012345678901234567890 .toExponential(3))", "print(-9223372036854775808 .toString())", "print(340282366920938463463374607431768211456 % 7)",
}

func runC01Boundary(t *fw.T) {
	src := c01Boundary[t.Index]
	if po := parse(src, Mode{}); po.Err != nil {
		t.Count("boundary_programs_rejected_by_the_parser_outside_the_premise", 1)
		return
	}
	t.Count("boundary_programs_accepted_and_judged", 1)
	checkBehaviour(t, src, "subset boundary", AllCodeCfgs())
	t.Distinct(src)
}

func runC01Hazards(t *fw.T) {
	src := c01Hazards[t.Index]
	checkBehaviour(t, src, "hand-written", AllCodeCfgs())
	t.Distinct(src)
}

func init() {
	fw.Register(&fw.Property{
		ID: "C01", Level: "translation_validation",
		Rule: "closed, deterministic, terminating programs (generated by construction: bounded loops, no recursion, no text-dependent values, output through print) are rendered in several layouts; the source text itself and every distinct compiled output (compact; pretty x indent x semicolons; each also with source map, whose code must be identical) are executed by node/V8 in fresh contexts; printed value sequences (type-tagged) and completion (normal / constructor name of the uncaught error) must be equal. A difference is re-run before it counts. programs = source programs judged; disagreements_checked = (program, configuration) pairs compared; distinct = distinct source texts.",
		Assumptions: []string{
			"V8 (node 20) is the reference semantics; the source is its own specification because the subset is JavaScript",
			"quick tier compiles each program under 6 of the 21 code configurations (compact, default pretty, tab/nosemi, 3 seed-chosen), thorough under all 21; hand-written hazard programs always under all 21",
			"goja is not used as a second observer (its parser mis-groups relational chains; see DESIGN 4.5)",
		},
		Teardown: closeEngine,
		Strata: []*fw.Stratum{
			{Name: "hazards", Quick: len(c01Hazards), Thorough: len(c01Hazards), Exhaustive: true, Run: runC01Hazards},
			{Name: "subset-boundary", Quick: len(c01Boundary), Thorough: len(c01Boundary), Exhaustive: true, Run: runC01Boundary},
			{Name: "programs", Quick: 10000, Thorough: 60000, Run: runC01},
			{Name: "control-flow-shapes", Quick: 2500, Thorough: 20000, Run: runC01Flow},
		},
	})
}
