package mon

import (
	"fmt"
	"math/rand/v2"
	"strings"

	"github.com/xjslang/xjs/ast"
	"github.com/xjslang/xjs/lexer"
	"github.com/xjslang/xjs/parser"
	"github.com/xjslang/xjs/token"

	"verif/fw"
	"verif/gen"
)

// ---- C16: parsing-context queries reflect the real nesting -----------------

type ctxObs struct {
	kind  string
	start token.Position
	inFn  bool
	ctx   parser.ContextType
	stack []parser.ContextType
}

func ctxName(c parser.ContextType) string {
	switch c {
	case parser.GlobalContext:
		return "global"
	case parser.FunctionContext:
		return "function"
	case parser.BlockContext:
		return "block"
	}
	return fmt.Sprint(int(c))
}

const dropMarker = "drop_me"

// pluginContext is a context value that a plugin defines for itself.
const pluginContext parser.ContextType = 77

// sprinkleDropMarkers inserts marker statements (`drop_me;`) into the statement lists of prog.
func sprinkleDropMarkers(prog *gen.Node, r *rand.Rand) int {
	return sprinkleMarkers(prog, r, dropMarker)
}

// expandMarker is a macro of a token-level plugin: its token interceptor replaces the word by the tokens of two
// statements (`enter(); leave()`), every one of them carrying the position of the word it came from.
const expandMarker = "expand_me"

// c16Expand (single goroutine per worker): recordContexts installs the macro-expanding token interceptor.
var c16Expand bool

func expandingInterceptor() func(l *lexer.Lexer, next func() token.Token) token.Token {
	// the plugin's state belongs to the lexer at hand: one builder builds many lexers (nested parses)
	type state struct {
		queue     []token.Token
		macroLine int
	}
	states := map[*lexer.Lexer]*state{}
	return func(l *lexer.Lexer, next func() token.Token) token.Token {
		st := states[l]
		if st == nil {
			st = &state{macroLine: -1}
			states[l] = st
		}
		if len(st.queue) > 0 {
			tok := st.queue[0]
			st.queue = st.queue[1:]
			return tok
		}
		tok := next()
		if st.macroLine >= 0 {
			// the lexer skips the blanks and line breaks in front of the next lexeme on every request, also on the
			// requests this interceptor answered from its queue: the plugin restores the flag from the positions
			if tok.Start.Line > st.macroLine {
				tok.AfterNewline = true
			}
			st.macroLine = -1
		}
		if tok.Type != token.IDENT || tok.Literal != expandMarker {
			return tok
		}
		mk := func(tt token.Type, lit string) token.Token {
			return token.Token{Type: tt, Literal: lit, Start: tok.Start, End: tok.End}
		}
		first := mk(token.IDENT, "enter")
		first.AfterNewline, first.LeadingComments = tok.AfterNewline, tok.LeadingComments
		st.queue = []token.Token{mk(token.LPAREN, "("), mk(token.RPAREN, ")"), mk(token.SEMICOLON, ";"), mk(token.IDENT, "leave"), mk(token.LPAREN, "("), mk(token.RPAREN, ")")}
		st.macroLine = tok.End.Line
		return first
	}
}

func sprinkleMarkers(prog *gen.Node, r *rand.Rand, marker string) int {
	n := 0
	add := func(list []*gen.Node) []*gen.Node {
		var out []*gen.Node
		for _, s := range list {
			if r.IntN(4) == 0 {
				out = append(out, gen.ExprStmt(gen.Id(marker)))
				n++
			}
			out = append(out, s)
		}
		return out
	}
	prog.Walk(func(x *gen.Node) {
		if x.K == gen.KBlock || x.K == gen.KFuncDecl || x.K == gen.KFunc || x.K == gen.KProgram {
			x.Kids = add(x.Kids)
		}
	})
	return n
}

var nestedSources = []string{"function q(){ { x } }", "{ { a } }", "f(function(){ return {a:1} })", "function q(){ {", "if (a) { function g(){ h( } }", "x", ""}

// recordContexts parses src with one recording statement and one recording expression interceptor. With nestEvery > 0
// every nestEvery-th invocation additionally builds a second parser FROM THE SAME BUILDER and runs it to completion on
// a nesting-heavy snippet while the outer parser is in the middle of its parse (what a macro-expanding plugin does),
// then records the outer parser's answers again: one builder builds independent parsers, so they must be unchanged.
func recordContexts(src string, m Mode, nestEvery int, coin *rand.Rand, drop bool, fnPlugin int) (obs []ctxObs, p *parser.Parser, nested int, err error) {
	b := newBuilder(m)
	if fnPlugin > 0 {
		b = fnKeywordBuilder(m, fnPlugin == 2)
	}
	if c16Expand {
		b.LexerBuilder.UseTokenInterceptor(expandingInterceptor())
	}
	depth, calls := 0, 0
	record := func(kind string, p *parser.Parser) {
		if depth > 0 {
			return // an invocation that belongs to a nested parser
		}
		st, _ := hookStack(p)
		obs = append(obs, ctxObs{kind, p.CurrentToken.Start, p.IsInFunction(), p.CurrentContext(), st})
		calls++
		if nestEvery > 0 && calls%nestEvery == 0 {
			depth++
			b.Build(nestedSources[calls%len(nestedSources)]).ParseProgram()
			depth--
			nested++
			st, _ := hookStack(p)
			obs = append(obs, ctxObs{kind + " (after a nested parse by another parser of the same builder)", p.CurrentToken.Start, p.IsInFunction(), p.CurrentContext(), st})
		}
	}
	// which kinds of interceptor are installed varies: both, only a statement interceptor, only an expression interceptor
	// (the answers must not depend on which other interceptors exist)
	which := len(src) % 4 // 0,1: both  2: statement only  3: expression only
	if which != 3 {
		b.UseStatementInterceptor(func(p *parser.Parser, next func() ast.Statement) ast.Statement {
			record("statement", p)
			if drop && depth == 0 && p.CurrentToken.Type == token.IDENT && p.CurrentToken.Literal == dropMarker {
				// a plugin that strips a statement (a `debugger`-like marker): the statement is parsed, so that its tokens
				// are consumed, and nil is returned - the statement loops drop nil results
				next()
				return nil
			}
			if coin != nil && depth == 0 && coin.IntN(3) == 0 {
				// a plugin that parses the statement itself through the public Parse*Statement API (see dispatchStatement)
				if coin.IntN(3) == 0 {
					// ... and tracks its own construct on the parser's context stack with a context value of its own
					// (PushContext / PopContext are public): the parser's own entries are as before once it has popped
					p.PushContext(pluginContext)
					st := dispatchStatement(p)
					p.PopContext()
					return st
				}
				return dispatchStatement(p)
			}
			return next()
		})
	}
	if which != 2 {
		b.UseExpressionInterceptor(func(p *parser.Parser, next func() ast.Expression) ast.Expression {
			record("expression", p)
			if coin != nil && depth == 0 && coin.IntN(4) == 0 {
				return p.ParseRemainingExpression(dispatchPrefix(p))
			}
			return next()
		})
	}
	p = b.Build(src)
	if len(src)%5 == 2 {
		// the statement loop driven by hand through the public API (what a REPL or a tool that wants the statements one
		// at a time does) instead of ParseProgram: the same parse steps, the same interceptor invocations
		for p.CurrentToken.Type != token.EOF {
			p.ParseStatement()
			p.NextToken()
		}
		if errs := p.Errors(); len(errs) > 0 {
			err = fmt.Errorf("%s", errs[0].Message)
		}
		return
	}
	_, err = p.ParseProgram()
	return
}

// fnKeywordBuilder: a builder for sources in which a plugin spells the `function` keyword `fn`: a token interceptor
// gives the word the built-in FUNCTION token type. With byHand the plugin also parses function declarations and function
// expressions itself, the way the built-in functions do it: name, parameters, then
// PushContext(FunctionContext); ParseBlockStatement(); PopContext().
func fnKeywordBuilder(m Mode, byHand bool) *parser.Builder {
	lb := lexer.NewBuilder()
	lb.UseTokenInterceptor(func(l *lexer.Lexer, next func() token.Token) token.Token {
		tok := next()
		if tok.Type == token.IDENT && tok.Literal == "fn" {
			tok.Type = token.FUNCTION
		}
		return tok
	})
	pb := parser.NewBuilder(lb)
	if m.Tolerant {
		pb.WithTolerantMode(true)
	}
	if m.Smart {
		pb.WithSmartSemicolon(true)
	}
	if !byHand {
		return pb
	}
	body := func(p *parser.Parser) *ast.BlockStatement {
		p.PushContext(parser.FunctionContext)
		b := p.ParseBlockStatement()
		p.PopContext()
		return b
	}
	pb.UseStatementInterceptor(func(p *parser.Parser, next func() ast.Statement) ast.Statement {
		if p.CurrentToken.Type != token.FUNCTION {
			return next()
		}
		stmt := &ast.FunctionDeclaration{Token: p.CurrentToken}
		if !p.ExpectToken(token.IDENT) {
			return nil
		}
		stmt.Name = &ast.Identifier{Token: p.CurrentToken, Value: p.CurrentToken.Literal}
		if !p.ExpectToken(token.LPAREN) {
			return nil
		}
		stmt.Parameters = p.ParseFunctionParameters()
		if !p.ExpectToken(token.LBRACE) {
			return nil
		}
		stmt.Body = body(p)
		return stmt
	})
	pb.UseExpressionInterceptor(func(p *parser.Parser, next func() ast.Expression) ast.Expression {
		if p.CurrentToken.Type != token.FUNCTION {
			return next()
		}
		fe := &ast.FunctionExpression{Token: p.CurrentToken}
		if p.PeekToken.Type == token.IDENT {
			p.NextToken()
			fe.Name = &ast.Identifier{Token: p.CurrentToken, Value: p.CurrentToken.Literal}
		}
		if !p.ExpectToken(token.LPAREN) {
			return nil
		}
		fe.Parameters = p.ParseFunctionParameters()
		if !p.ExpectToken(token.LBRACE) {
			return nil
		}
		fe.Body = body(p)
		return p.ParseRemainingExpression(fe)
	})
	return pb
}

// spellFunctionAsFn rewrites every `function` keyword of a rendered source as `fn` and returns the new text with the
// ground-truth tokens at their new positions (nil if the source has no `function` keyword or uses the name fn).
func spellFunctionAsFn(rd *gen.Rendered) (string, map[token.Position]*gen.Tok) {
	var sb strings.Builder
	last, n := 0, 0
	newOff := make([]int, len(rd.Toks))
	for i := range rd.Toks {
		tk := &rd.Toks[i]
		sb.WriteString(rd.Src[last:tk.Off])
		newOff[i] = sb.Len()
		last = tk.Off
		if tk.Kind == gen.TKeyword && tk.Text == "function" {
			sb.WriteString("fn")
			last = tk.End
			n++
		} else if tk.Kind == gen.TIdent && tk.Text == "fn" {
			return "", nil
		}
	}
	if n == 0 {
		return "", nil
	}
	sb.WriteString(rd.Src[last:])
	src := sb.String()
	byPos := map[token.Position]*gen.Tok{}
	line, lineStart, k := 0, 0, 0
	for i := 0; i <= len(src) && k < len(newOff); i++ {
		for k < len(newOff) && newOff[k] == i {
			byPos[token.Position{Line: line, Column: i - lineStart}] = &rd.Toks[k]
			k++
		}
		if i < len(src) && src[i] == '\n' {
			line++
			lineStart = i + 1
		}
	}
	return src, byPos
}

func finalState(t *fw.T, p *parser.Parser, src string, mode Mode, valid bool) {
	key := "malformed input"
	if valid {
		key = "valid program"
	}
	wit := func() map[string]any { return map[string]any{"input": src, "mode": mode.String()} }
	if c := p.CurrentContext(); c != parser.GlobalContext {
		t.Violate("final-context", key+"/"+ctxName(c), fmt.Sprintf("after parsing, CurrentContext()=%s: %s", ctxName(c), fmt.Sprintf("%q", clip(src, 160))), wit())
		return
	}
	if p.IsInFunction() {
		t.Violate("final-context", key+"/in-function", "after parsing, IsInFunction() is true: "+fmt.Sprintf("%q", clip(src, 160)), wit())
		return
	}
	if st, ok := hookStack(p); ok {
		t.Count("hook_final_stack_checked", 1)
		if len(st) != 1 {
			t.Violate("final-context", key+"/stack-depth", fmt.Sprintf("after parsing, the context stack has depth %d: %q", len(st), clip(src, 160)), wit())
		}
	}
}

func runC16Program(t *fw.T) {
	r := t.Rand()
	g := gen.NewSyn(r, gen.SynOpts{ExprDepth: 2 + r.IntN(4), StmtDepth: 2 + r.IntN(4), MaxStmts: 1 + r.IntN(4), Heavy: true})
	if t.Thorough() && r.IntN(5) == 0 {
		g.O.StmtDepth = 8
	}
	checkContexts(t, r, g.Program(), "programs")
}

// deepChain nests depth brace constructs of random kinds (plain block, function declaration, function expression as a
// call argument followed by further arguments, if / while with block bodies), with a statement before and after each
// nested construct, so that queries are made at every depth on the way in and on the way out.
func deepChain(r *rand.Rand, depth int) *gen.Node { return deepChainOuter(r, depth, 0) }

// deepChainOuter: the outermost outerBlocks constructs are not functions (plain blocks, if / while bodies) and the
// construct directly inside them is a function: the outermost function sits below that many block contexts.
func deepChainOuter(r *rand.Rand, depth, outerBlocks int) *gen.Node {
	body := []*gen.Node{gen.ExprStmt(gen.Call(gen.Id("leaf")))}
	for i := 0; i < depth; i++ {
		var wrap *gen.Node
		kind := r.IntN(6)
		if outerBlocks > 0 && i >= depth-outerBlocks {
			kind = []int{0, 3, 4}[r.IntN(3)]
		} else if outerBlocks > 0 && i == depth-outerBlocks-1 {
			kind = []int{1, 2, 5}[r.IntN(3)]
		}
		switch kind {
		case 0:
			wrap = &gen.Node{K: gen.KBlock, Kids: body}
		case 1:
			wrap = &gen.Node{K: gen.KFuncDecl, Name: fmt.Sprintf("f%d", i), Kids: body}
		case 2:
			wrap = gen.ExprStmt(gen.Call(gen.Id("g"), &gen.Node{K: gen.KFunc, Kids: body}, gen.Id(fmt.Sprintf("after%d", i))))
		case 3:
			wrap = &gen.Node{K: gen.KIf, Kids: []*gen.Node{gen.Id("c"), {K: gen.KBlock, Kids: body}}}
		case 4:
			wrap = &gen.Node{K: gen.KWhile, Kids: []*gen.Node{gen.Id("c"), {K: gen.KBlock, Kids: body}}}
		default:
			wrap = gen.Let(fmt.Sprintf("v%d", i), &gen.Node{K: gen.KFunc, Name: fmt.Sprintf("n%d", i), Kids: body})
		}
		body = []*gen.Node{gen.ExprStmt(gen.Id(fmt.Sprintf("a%d", i))), wrap, gen.ExprStmt(gen.Id(fmt.Sprintf("z%d", i)))}
	}
	return gen.Prog(body...)
}

func runC16Deep(t *fw.T) {
	r := t.Rand()
	depth := 8 + r.IntN(120)
	if t.Thorough() && r.IntN(4) == 0 {
		depth = 100 + r.IntN(400)
	}
	if r.IntN(3) == 0 {
		// the outermost function lies below 40..200 nested blocks
		outer := 40 + r.IntN(160)
		t.Feature("blocks around the outermost function", fmt.Sprint(outer/20*20))
		checkContexts(t, r, deepChainOuter(r, outer+1+r.IntN(12), outer), "deep-nesting")
		return
	}
	checkContexts(t, r, deepChain(r, depth), "deep-nesting")
}

func checkContexts(t *fw.T, r *rand.Rand, prog *gen.Node, stratum string) {
	// a third of the programs contain marker statements that a statement interceptor strips (returns nil for)
	x := r.IntN(6)
	drop := x < 2
	if drop {
		t.Count("statements_stripped_by_an_interceptor", sprinkleDropMarkers(prog, r))
	}
	// a sixth contains macro words that a token interceptor expands into two statements whose tokens all carry the
	// position of the word: where a statement list stands does not depend on where its tokens say they came from
	c16Expand = x == 2
	defer func() { c16Expand = false }()
	if c16Expand {
		t.Count("macro_words_expanded_by_a_token_interceptor", sprinkleMarkers(prog, r, expandMarker))
	}
	l := stdLayouts[r.IntN(len(stdLayouts))]
	if c16Expand {
		l.E.Parens = 0 // a macro word expands to statements: it stands where a statement can stand, not inside parentheses
	}
	// one source in eight leaves its innermost blocks open at end of input and is parsed in tolerant mode only (which
	// accepts that): the last tokens of the text stand as deep as the ones before them
	if r.IntN(8) == 0 {
		l.L.CutBrace = 1 + r.IntN(3)
	}
	rd := gen.Render(prog, r, l.E, l.L)
	byPos := map[token.Position]*gen.Tok{}
	maxDepth := 0
	for i := range rd.Toks {
		tk := &rd.Toks[i]
		byPos[token.Position{Line: tk.Line, Column: tk.Col}] = tk
		if tk.Depth > maxDepth {
			maxDepth = tk.Depth
		}
	}
	// a third of the programs spell the `function` keyword the way a plugin defines it (`fn`, re-typed by a token
	// interceptor); half of those plugins also parse the function constructs themselves through the public API
	src, fnPlugin := rd.Src, 0
	if r.IntN(3) == 0 {
		if s2, bp := spellFunctionAsFn(rd); bp != nil {
			src, byPos, fnPlugin = s2, bp, 1+r.IntN(2)
			t.Count("programs_with_a_plugin_spelled_function_keyword", 1)
			if fnPlugin == 2 {
				t.Count("programs_whose_function_constructs_a_plugin_parses_by_hand", 1)
			}
		}
	}
	t.Feature("nesting-depths", fmt.Sprint(maxDepth))
	modes := []Mode{{}, {Tolerant: true, Smart: false}}
	if rd.CutBraces > 0 {
		modes = []Mode{{Tolerant: true}}
		t.Count("sources_with_blocks_left_open_parsed_in_tolerant_mode", 1)
	} else if !hasLineLeadingBracket(src) {
		// no '(' / '[' first on a line: smart-semicolon mode reads the text like the default mode, and the context
		// queries answer the same questions
		modes = append(modes, Mode{Smart: true, Tolerant: r.IntN(2) == 0})
	}
	for _, m := range modes {
		var obs []ctxObs
		var p *parser.Parser
		var err error
		wit := func() map[string]any {
			return map[string]any{"source": src, "mode": m.String(), "fn_keyword_plugin": fnPlugin}
		}
		nestEvery, nested := 0, 0
		if r.IntN(2) == 0 {
			nestEvery = 1 + r.IntN(5)
		}
		var coin *rand.Rand
		if r.IntN(2) == 0 {
			coin = rand.New(rand.NewPCG(r.Uint64(), 16))
			t.Count("parses_with_interceptors_that_use_the_public_parse_API", 1)
		}
		if !t.Guard("parse with recording interceptors", wit, func() { obs, p, nested, err = recordContexts(src, m, nestEvery, coin, drop, fnPlugin) }) {
			return
		}
		t.Count("nested_parses_by_a_second_parser_of_the_same_builder", nested)
		// a generated program that is not accepted is C02's business - but what the queries answered up to the place of
		// the first error is judged like any other answer (nothing has been recovered from yet)
		var limit *token.Position
		if err != nil {
			if errs := p.Errors(); len(errs) > 0 {
				limit = &errs[0].Range.Start
			} else {
				t.Inconclusive("generated program not accepted (C02's business)", src)
				return
			}
		}
		for _, o := range obs {
			if limit != nil && (o.start.Line > limit.Line || (o.start.Line == limit.Line && o.start.Column > limit.Column)) {
				break
			}
			gt := byPos[o.start]
			if gt == nil {
				t.Violate("current-token", o.kind, fmt.Sprintf("%s interceptor ran with a current token at %v that is not a token start of the source: %s", o.kind, o.start, gen.Describe(src)), wit())
				return
			}
			t.Count("interceptor_invocations_checked", 1)
			t.Feature("ground-truth (inFunction, innermost)", fmt.Sprintf("%v/%d", gt.InFunc, gt.Ctx))
			where := fmt.Sprintf("%s interceptor at %q %d:%d", o.kind, gt.Text, gt.Line, gt.Col)
			if o.inFn != gt.InFunc {
				w := wit()
				w["at"] = where
				t.Violate("is-in-function", fmt.Sprintf("%s says %v", o.kind, o.inFn), fmt.Sprintf("%s: IsInFunction()=%v but the token is inside a function body=%v: %s", where, o.inFn, gt.InFunc, gen.Describe(src)), w)
				return
			}
			bad := ""
			switch {
			case o.ctx == pluginContext:
				// the innermost entry is the plugin's own construct (pushed by the interceptor that is parsing this
				// statement): nothing to compare it with; IsInFunction and everything after its pop are judged
				t.Count("observations_inside_a_plugin_context", 1)
			case (o.ctx == parser.GlobalContext) != (gt.Depth == 0):
				bad = fmt.Sprintf("CurrentContext()=%s but nesting depth is %d", ctxName(o.ctx), gt.Depth)
			case gt.Ctx == gen.CtxBlock && o.ctx != parser.BlockContext:
				bad = fmt.Sprintf("innermost construct is a block but CurrentContext()=%s", ctxName(o.ctx))
			case gt.Ctx == gen.CtxFunc && o.ctx != parser.FunctionContext && o.ctx != parser.BlockContext:
				bad = fmt.Sprintf("innermost construct is a function body but CurrentContext()=%s", ctxName(o.ctx))
			}
			if bad != "" {
				w := wit()
				w["at"] = where
				t.Violate("current-context", fmt.Sprintf("%s: truth=%d got=%s", o.kind, gt.Ctx, ctxName(o.ctx)), where+": "+bad+": "+gen.Describe(src), w)
				return
			}
			if o.stack != nil {
				// hook: the stack holds exactly one entry per enclosing brace construct (+ global), function bodies counting twice
				nf := 0
				for _, c := range o.stack {
					if c == parser.FunctionContext {
						nf++
					}
				}
				if (nf > 0) != gt.InFunc {
					t.Violate("is-in-function", "hook stack", where+": stack "+fmt.Sprint(o.stack)+" disagrees with nesting", wit())
					return
				}
			}
		}
		if err != nil {
			t.Inconclusive("generated program not accepted (C02's business)", src)
			return
		}
		finalState(t, p, src, m, true)
	}
	t.Distinct(src)
	if t.WantSample() && len(src) < 300 {
		t.Sample(map[string]any{"stratum": stratum, "source": src, "max_nesting": maxDepth})
	}
}

func runC16Malformed(t *fw.T) {
	r := t.Rand()
	var src string
	switch r.IntN(3) {
	case 0:
		src = genSoup(r, 1+r.IntN(14))
	case 1:
		_, rd := randProgram(r)
		src = mutate(r, rd)
	default:
		// nesting-heavy fragments with early exits
		frags := []string{"function f(", "function(", ") {", "{", "}", "if (", "while (", "for (", ";", "let x =", "return", "(", ")", "[", "]", "a", ",", "1", "else", "=", "+"}
		n := 1 + r.IntN(16)
		for i := 0; i < n; i++ {
			src += frags[r.IntN(len(frags))] + " "
		}
	}
	for _, m := range AllModes {
		var p *parser.Parser
		// half of the parses run with pass-through interceptors installed (one of them strips marker statements): the
		// final state must not depend on who wraps the parse functions
		withIC := r.IntN(2) == 0
		ok := t.Guard("parse", func() map[string]any { return map[string]any{"input": src, "interceptors": withIC} }, func() {
			b := newBuilder(m)
			if withIC {
				b.UseStatementInterceptor(func(p *parser.Parser, next func() ast.Statement) ast.Statement {
					st := next()
					if p.CurrentToken.Type == token.SEMICOLON && len(src)%3 == 0 {
						return nil
					}
					return st
				})
				b.UseExpressionInterceptor(func(p *parser.Parser, next func() ast.Expression) ast.Expression { return next() })
			}
			p = b.Build(src)
			p.ParseProgram()
		})
		if withIC {
			t.Count("final_states_checked_with_interceptors_installed", 1)
		}
		if !ok {
			return
		}
		finalState(t, p, src, m, false)
		t.Count("final_states_checked", 1)
	}
	t.Distinct(src)
}

var _ = lexer.NewBuilder

func init() {
	fw.Register(&fw.Property{
		ID: "C16", Level: "exploration",
		Rule: "statement and expression interceptors record (current token, IsInFunction(), CurrentContext(), hook: context stack) at every invocation; the renderer's token table gives the true nesting of that token (inside any function body? innermost brace construct: none / block / function body). After every parse (valid or malformed, 4 modes) the context must be global, not in a function, hook stack depth 1. distinct = distinct source texts.",
		Assumptions: []string{
			"inside a function body both FunctionContext and BlockContext are accepted as innermost context (the body is syntactically a braced block and xjs parses it as one; the statement does not say which name wins)",
			"a panic on malformed input is C11's business and counted inconclusive here",
		},
		Strata: []*fw.Stratum{
			{Name: "programs", Quick: 36000, Thorough: 150000, Run: runC16Program},
			{Name: "deep-nesting", Quick: 1500, Thorough: 8000, Run: runC16Deep},
			{Name: "malformed-final-state", Quick: 300000, Thorough: 2000000, PanicInconclusive: true, Run: runC16Malformed},
		},
	})
}
