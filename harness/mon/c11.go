package mon

import (
	"fmt"
	"github.com/xjslang/xjs/compiler"
	"reflect"
	"strings"

	"github.com/xjslang/xjs/ast"
	"github.com/xjslang/xjs/lexer"
	"github.com/xjslang/xjs/token"

	"verif/fw"
)

// ---- C11: parsing is total and its result obeys the error contract ---------

var stmtIface = reflect.TypeOf((*ast.Statement)(nil)).Elem()
var exprIface = reflect.TypeOf((*ast.Expression)(nil)).Elem()

// walkTree visits every reachable node reflectively and reports structural problems:
// nil / typed-nil entries in statement lists (always), nil mandatory children (when strict is set).
func walkTree(root any, strict bool) []string {
	var probs []string
	seen := 0
	var walk func(v reflect.Value, path string)
	walk = func(v reflect.Value, path string) {
		seen++
		if seen > 2_000_000 || len(probs) > 5 {
			return
		}
		switch v.Kind() {
		case reflect.Interface, reflect.Ptr:
			if v.IsNil() {
				return
			}
			walk(v.Elem(), path)
		case reflect.Struct:
			tn := v.Type().Name()
			if tn == "Token" || tn == "Position" {
				return
			}
			for i := 0; i < v.NumField(); i++ {
				f := v.Field(i)
				ft := v.Type().Field(i)
				if !ft.IsExported() {
					continue
				}
				name := path
				if f.Kind() == reflect.Slice && f.Type().Elem() == stmtIface {
					for j := 0; j < f.Len(); j++ {
						e := f.Index(j)
						if e.IsNil() {
							probs = append(probs, "nil-statement|"+tn+"."+ft.Name+"|nil entry")
						} else if e.Elem().Kind() == reflect.Ptr && e.Elem().IsNil() {
							probs = append(probs, "nil-statement|"+tn+"."+ft.Name+"|typed-nil "+e.Elem().Type().String())
						} else {
							walk(e, name)
						}
					}
					continue
				}
				if strict && isMandatory(tn, ft.Name) {
					if isNilValue(f) {
						probs = append(probs, "missing-child|"+tn+"."+ft.Name+"|nil")
						continue
					}
				}
				if strict && f.Kind() == reflect.Slice {
					for j := 0; j < f.Len(); j++ {
						e := f.Index(j)
						if isNilValue(e) {
							probs = append(probs, "missing-child|"+tn+"."+ft.Name+"[]|nil element")
						}
					}
				}
				walk(f, name)
			}
		case reflect.Slice:
			for j := 0; j < v.Len(); j++ {
				walk(v.Index(j), path)
			}
		}
	}
	walk(reflect.ValueOf(root), "")
	return probs
}

func isNilValue(f reflect.Value) bool {
	switch f.Kind() {
	case reflect.Ptr, reflect.Slice, reflect.Map:
		return f.IsNil()
	case reflect.Interface:
		if f.IsNil() {
			return true
		}
		e := f.Elem()
		return e.Kind() == reflect.Ptr && e.IsNil()
	}
	return false
}

var mandatory = map[string]bool{
	"LetStatement.Name": true, "LetExpression.Name": true,
	"FunctionDeclaration.Name": true, "FunctionDeclaration.Body": true, "FunctionDeclaration.Parameters": true,
	"FunctionExpression.Body": true, "FunctionExpression.Parameters": true,
	"IfStatement.Condition": true, "IfStatement.ThenBranch": true,
	"WhileStatement.Condition": true, "WhileStatement.Body": true, "ForStatement.Body": true,
	"ExpressionStatement.Expression": true,
	"BinaryExpression.Left":          true, "BinaryExpression.Right": true, "UnaryExpression.Right": true, "PostfixExpression.Left": true,
	"GroupedExpression.Expression": true, "CallExpression.Function": true, "CallExpression.Arguments": true,
	"MemberExpression.Object": true, "MemberExpression.Property": true,
	"AssignmentExpression.Left": true, "AssignmentExpression.Value": true,
	"CompoundAssignmentExpression.Left": true, "CompoundAssignmentExpression.Value": true,
	"ArrayLiteral.Elements": true, "ObjectLiteral.Properties": true, "ObjectProperty.Key": true, "ObjectProperty.Value": true,
	"Program.Statements": true, "BlockStatement.Statements": true,
}

func isMandatory(typ, field string) bool { return mandatory[typ+"."+field] }

type rng struct{ s, e token.Position }

// tokenRanges: the (Start, End) pairs of the tokens of src. The lexer is asked for the tokens, but a pair only counts as
// "the range of a token of the input" if it is verified against the text independently (own line table): both ends
// denote positions of the source; identifier, keyword, number and operator tokens carry at Start exactly their literal
// and end on or just behind its last byte; string tokens start at a quote and end at the matching closing quote found
// by the reference scanner; end of input sits at the end of the source. claimed holds every pair the lexer reported.
func tokenRanges(src string) (verified, claimed map[rng]bool) {
	verified, claimed = map[rng]bool{}, map[rng]bool{}
	li := newLineIndex(src)
	lx := lexer.NewBuilder().Build(src)
	for i := 0; i < len(src)+3; i++ {
		tk := lx.NextToken()
		claimed[rng{tk.Start, tk.End}] = true
		if tokenIsWhereItSays(src, li, tk) {
			verified[rng{tk.Start, tk.End}] = true
		}
		if tk.Type == token.EOF {
			break
		}
	}
	return
}

func tokenIsWhereItSays(src string, li *lineIndex, tk token.Token) bool {
	so, ok1 := li.off(tk.Start)
	eo, ok2 := li.off(tk.End)
	if !ok1 || !ok2 || so > len(src) || eo > len(src) {
		return false
	}
	switch {
	case tk.Type == token.EOF:
		return so == len(src)
	case so >= len(src):
		return false
	case tk.Type == token.STRING || tk.Type == token.RAW_STRING:
		q := src[so]
		if (tk.Type == token.STRING && q != '"' && q != '\'') || (tk.Type == token.RAW_STRING && q != '`') {
			return false
		}
		last, term := refStringEnd(src, so, q, tk.Type == token.RAW_STRING)
		if !term {
			last = len(src) - 1
		}
		return eo == last || eo == last+1
	case tk.Type == token.ILLEGAL:
		return eo >= so
	}
	n := len(tk.Literal)
	return n > 0 && so+n <= len(src) && src[so:so+n] == tk.Literal && (eo == so+n-1 || eo == so+n)
}

var allCfgs42 []Cfg

func init() {
	for _, c := range AllCodeCfgs() {
		allCfgs42 = append(allCfgs42, c)
		c.Map = true
		allCfgs42 = append(allCfgs42, c)
	}
}

// checkParseContract runs one input under all four modes.
func checkParseContract(t *fw.T, src string, label string) { checkParseContractCfg(t, src, label, nil) }

// checkParseContractCfg: cfgOverride (if non-nil) replaces the tier's configuration list
// (deep nesting: pretty output is quadratic in the depth, which is the harness's cost, not xjs's).
func checkParseContractCfg(t *fw.T, src string, label string, cfgOverride []Cfg) {
	if t.Index%64 == 9 {
		// other builders with plugins (a postfix operator on the NOT token, infix / prefix operators, word-like token types,
		// interceptors, other modes) are configured and used in this process: plain parsers are total as before
		pluginNoise(t.Index / 64)
		t.Count("cases_preceded_by_plugin_activity_on_other_builders", 1)
	}
	var ranges, claimed map[rng]bool
	for _, m := range AllModes {
		var po ParseOut
		wit := func() map[string]any {
			return map[string]any{"input": src, "input_quoted": fmt.Sprintf("%q", clip(src, 300)), "mode": m.String(), "workload": label}
		}
		// the order in which a caller asks is not part of the contract: every third case reads Errors() before it parses
		// (a precondition check, logging), every third polls Errors() from a pass-through statement interceptor
		how := (t.Index / 16) % 3
		if !t.Guard("parse ("+m.String()+")", wit, func() {
			switch how {
			case 1:
				po = parsePolled(src, m, false)
			case 2:
				po = parsePolled(src, m, true)
			default:
				po = parse(src, m)
			}
		}) {
			continue
		}
		t.Count("parses", 1)
		if how > 0 {
			t.Count("parses_with_the_error_list_read_before_or_during_the_parse", 1)
		}
		if po.Prog == nil {
			t.Violate("nil-program", m.String(), "ParseProgram returned a nil program for "+fmt.Sprintf("%q", clip(src, 120)), wit())
			continue
		}
		if (po.Err != nil) != (len(po.Errors) > 0) {
			t.Violate("error-iff-list", fmt.Sprintf("err=%v list-non-empty=%v", po.Err != nil, len(po.Errors) > 0), fmt.Sprintf("error value %v but %d entries in the error list for %q", po.Err, len(po.Errors), clip(src, 120)), wit())
		}
		// the contract is per call: asking the same parser for the program once more must again terminate, return a
		// program, and return an error value iff the (accumulated) error list is non-empty
		if po.P != nil && t.Index%2 == 0 {
			var p2 *ast.Program
			var e2 error
			if t.Guard("second ParseProgram on the same parser ("+m.String()+")", wit, func() { p2, e2 = po.P.ParseProgram() }) {
				t.Count("repeated_parse_calls", 1)
				n2 := len(po.P.Errors())
				switch {
				case p2 == nil:
					t.Violate("nil-program", m.String()+"/second call", "a second ParseProgram call on the same parser returned a nil program for "+fmt.Sprintf("%q", clip(src, 120)), wit())
				case (e2 != nil) != (n2 > 0):
					t.Violate("error-iff-list", fmt.Sprintf("second call err=%v list-non-empty=%v", e2 != nil, n2 > 0), fmt.Sprintf("second ParseProgram call: error value %v but %d entries in the error list for %q", e2, n2, clip(src, 120)), wit())
				default:
					if pr := walkTree(p2, false); len(pr) > 0 {
						t.Violate("nil-statement", "second call "+pr[0], "second ParseProgram call: "+pr[0]+" for "+fmt.Sprintf("%q", clip(src, 120)), wit())
					}
				}
			}
		}
		var probs []string
		if !t.Guard("walk tree", wit, func() { probs = walkTree(po.Prog, po.Err == nil && len(po.Errors) == 0) }) {
			continue
		}
		for _, p := range probs {
			f := strings.SplitN(p, "|", 3)
			w := wit()
			w["problem"] = p
			t.Violate(f[0], f[1]+" "+f[2], f[0]+" "+f[1]+" ("+f[2]+") after parsing "+fmt.Sprintf("%q", clip(src, 120)), w)
			break
		}
		if len(po.Errors) > 0 {
			if ranges == nil {
				ok := t.Guard("lex for ranges", wit, func() { ranges, claimed = tokenRanges(src) })
				if !ok {
					ranges, claimed = map[rng]bool{}, map[rng]bool{}
				}
			}
			for _, e := range po.Errors {
				if !ranges[rng{e.Range.Start, e.Range.End}] {
					w := wit()
					w["error"] = e
					if claimed[rng{e.Range.Start, e.Range.End}] {
						t.Violate("error-range", "range of a token that is not where the range says", fmt.Sprintf("error %q has range %v-%v: the lexer reports a token there, but the input does not carry that token at that place: %q", e.Message, e.Range.Start, e.Range.End, clip(src, 120)), w)
					} else {
						t.Violate("error-range", errKey(e.Message), fmt.Sprintf("error %q has range %v-%v which is not the range of a token of the input %q", e.Message, e.Range.Start, e.Range.End, clip(src, 120)), w)
					}
					break
				}
			}
			t.Count("inputs_with_errors", 1)
			continue
		}
		t.Count("error_free_parses", 1)
		// error-free: compiles in every configuration without panicking
		cfgs := allCfgs42
		if !t.Thorough() && t.Index%8 != 0 {
			cfgs = []Cfg{allCfgs42[0], allCfgs42[1], allCfgs42[(t.Index*2)%len(allCfgs42)], allCfgs42[(t.Index*2+1)%len(allCfgs42)], {Pretty: true, Tabs: true, NoSemi: true, Map: true}}
		}
		if cfgOverride != nil {
			cfgs = cfgOverride
		}
		for _, c := range cfgs {
			c := c
			t.Guard("compile error-free tree ("+c.String()+")", func() map[string]any { w := wit(); w["config"] = c.String(); return w }, func() {
				// every second group of cases compiles with this worker's long-lived Compiler values: "compiles in every
				// configuration" holds for a compiler that has compiled other programs before
				var res compiler.CompileResult
				if (t.Index/16)%2 == 1 {
					res = c.CompileReused(po.Prog)
				} else {
					res = c.Compile(po.Prog)
				}
				if c.Map && res.SourceMap == nil {
					t.Violate("no-source-map", c.String(), "source map requested but nil", wit())
				}
				_ = res.Code
			})
			t.Count("compiles", 1)
		}
	}
}

func nest(open, mid, close string, n int) string {
	return strings.Repeat(open, n) + mid + strings.Repeat(close, n)
}

func init() {
	fw.Register(&fw.Property{
		ID: "C11", Level: "exploration",
		Rule: "each input is parsed in the 4 mode combinations; invariants over the returned values: non-nil program, error value iff error list non-empty, no nil/typed-nil entries in any statement list (reflective walk), every error range equals the (Start,End) of a token of the input (independent lexer pass), and for error-free results all mandatory children present and 42 compiler configurations run without panic. Non-termination = a single case exceeding 10 s of process CPU time. distinct = distinct inputs.",
		Assumptions: []string{
			"inputs are at most 64 KiB and nesting depth at most 5000 (unbounded recursion depth is outside the explored bound)",
			"quick tier compiles error-free trees under 5 of the 42 configurations (all 42 for every 8th case); thorough under all 42",
		},
		Strata: []*fw.Stratum{
			{Name: "bytes", Quick: 120000, Thorough: 1000000, Run: func(t *fw.T) {
				r := t.Rand()
				src := genBytes(r, r.IntN(48))
				checkParseContract(t, src, "bytes")
				t.Distinct(src)
			}},
			{Name: "soup", Quick: 200000, Thorough: 1600000, Run: func(t *fw.T) {
				r := t.Rand()
				src := genSoup(r, 1+r.IntN(16))
				checkParseContract(t, src, "soup")
				t.Distinct(src)
				if t.WantSample() {
					t.Sample(map[string]any{"stratum": "soup", "input": fmt.Sprintf("%q", src)})
				}
			}},
			{Name: "mutants", Quick: 200000, Thorough: 1000000, Run: func(t *fw.T) {
				r := t.Rand()
				_, rd := randProgram(r)
				src := mutate(r, rd)
				if r.IntN(4) == 0 {
					// a statement in front whose literal or comment spans lines (quoted strings may hold raw line breaks in this
					// language): the error ranges behind it are still ranges of tokens of the input
					src = fw.Pick(r, []string{"s = \"two\nlines\"\n", "'a\n\nb';", "`t\n  u`\n", "\"x\\\ny\"\n", "q = 'r\r\ns' + 1\n", "// c\n\"a\nb\" \"c\n", "\"é\n\" ", "x = \"1\n2\n3\"; "}) + src
					t.Count("mutants_behind_a_literal_that_spans_lines", 1)
				}
				checkParseContract(t, src, "mutant")
				t.Distinct(src)
				if t.WantSample() && len(src) < 200 {
					t.Sample(map[string]any{"stratum": "mutants", "input": src})
				}
			}},
			{Name: "valid-programs", Quick: 12000, Thorough: 50000, Run: func(t *fw.T) {
				r := t.Rand()
				_, rd := randProgram(r)
				checkParseContract(t, rd.Src, "valid")
				t.Distinct(rd.Src)
			}},
			{Name: "native-fuzzing", Quick: 0, Thorough: 1, Run: func(t *fw.T) {
				runNativeFuzz(t, "FuzzParse", 10000000, ParseContractFinding)
			}},
			{Name: "deep-nesting", Quick: 60, Thorough: 240, Run: func(t *fw.T) {
				shapes := []func(n int) string{
					func(n int) string { return nest("(", "x", ")", n) },
					func(n int) string { return nest("[", "1", "]", n) },
					func(n int) string { return nest("{", "", "}", n) },
					func(n int) string { return strings.Repeat("!", n) + "x" },
					func(n int) string { return strings.Repeat("-", n) + "x" },
					func(n int) string { return "a" + strings.Repeat(".b", n) },
					func(n int) string { return "a" + strings.Repeat("(1)", n) },
					func(n int) string { return strings.Repeat("(", n) },
					func(n int) string { return strings.Repeat("[", n) },
					func(n int) string { return strings.Repeat("{", n) },
					func(n int) string { return strings.Repeat("if (a) ", n) + "b" },
					func(n int) string { return nest("f(", "", ")", n) },
					func(n int) string { return nest("function(){", "", "}", n) },
					func(n int) string { return strings.Repeat("a = ", n) + "1" },
					func(n int) string { return "x" + strings.Repeat(" + 1", n) },
				}
				depths := []int{10, 100, 1000, 5000}
				s := shapes[t.Index%len(shapes)]
				d := depths[(t.Index/len(shapes))%len(depths)]
				src := s(d)
				cfgs := []Cfg{{}, {Map: true}}
				if d <= 1000 {
					cfgs = append(cfgs, Cfg{Pretty: true, Spaces: 1}, Cfg{Pretty: true, Tabs: true, NoSemi: true, Map: true})
				}
				checkParseContractCfg(t, src, "deep", cfgs)
				t.Distinct(src)
				t.Feature("nesting-depths", fmt.Sprint(d))
			}},
		},
	})
}

// ParseContractFinding is the pure form of the C11 monitor (used by the native fuzz target): first finding or nil.
func ParseContractFinding(src string) (fd *Finding) {
	for _, m := range AllModes {
		func() {
			defer func() {
				if r := recover(); r != nil && fd == nil {
					fd = &Finding{"panic", m.String(), fmt.Sprintf("panic in mode %s: %v", m, r)}
				}
			}()
			po := parse(src, m)
			if fd != nil {
				return
			}
			if po.Prog == nil {
				fd = &Finding{"nil-program", m.String(), "nil program"}
				return
			}
			if (po.Err != nil) != (len(po.Errors) > 0) {
				fd = &Finding{"error-iff-list", m.String(), "error value and error list disagree"}
				return
			}
			if probs := walkTree(po.Prog, po.Err == nil); len(probs) > 0 {
				fd = &Finding{"tree", probs[0], probs[0]}
				return
			}
			if len(po.Errors) > 0 {
				ranges, _ := tokenRanges(src)
				for _, e := range po.Errors {
					if !ranges[rng{e.Range.Start, e.Range.End}] {
						fd = &Finding{"error-range", errKey(e.Message), fmt.Sprintf("error %q range %v-%v is not a token range", e.Message, e.Range.Start, e.Range.End)}
						return
					}
				}
				return
			}
			for _, c := range []Cfg{{}, {Map: true}, {Pretty: true, Spaces: 2}, {Pretty: true, Tabs: true, NoSemi: true, Map: true}} {
				c.Compile(po.Prog)
			}
		}()
		if fd != nil {
			return fd
		}
	}
	return nil
}
