package mon

import (
	"fmt"

	"verif/fw"
	"verif/gen"
	"verif/norm"
)

// ---- C02: the subset is parsed exactly as JavaScript parses it -------------

// checkParsesAs renders tree in the given layouts, confirms each text with the
// reference parser (acorn) and compares xjs's tree with the generated one.
func checkParsesAs(t *fw.T, tree *gen.Node, lays []NamedLayout, label string) {
	r := t.Rand()
	want := tree.S()
	if t.Index%64 == 7 {
		// other builders with plugins (postfix operators on ! and %, infix / prefix operators, word-like token types,
		// interceptors, modes) are configured and used in this process: the tree a plain parser builds depends on the
		// token sequence only, not on which parsers existed before
		pluginNoise(t.Index / 64)
		t.Count("cases_preceded_by_plugin_activity_on_other_builders", 1)
	}
	rds := make([]*gen.Rendered, len(lays))
	texts := make([]string, len(lays))
	for i, l := range lays {
		rds[i] = gen.Render(tree, r, l.E, l.L)
		texts[i] = rds[i].Src
	}
	ac, ok := acornTrees(t, texts, false)
	if !ok {
		return
	}
	for i, l := range lays {
		t.Count("texts", 1)
		src := texts[i]
		if ac[i].Err != "" || ac[i].S != want {
			// the unparser and the reference parser disagree: the oracle is unsound for this case
			t.Count("oracle_selfcheck_failures", 1)
			t.Inconclusive("oracle self-check: reference parser does not read the rendered text as the generated tree", label+"/"+l.Name+": "+diffKey(want, ac[i].S)+" "+ac[i].Err+" :: "+gen.Describe(src)+"\n want "+clip(want, 500)+"\n got  "+clip(ac[i].S, 500))
			continue
		}
		wit := func() map[string]any {
			return map[string]any{"source": src, "layout": l.Name, "expected_tree": want}
		}
		var po ParseOut
		// every fourth text is parsed by a parser built from a long-lived builder that served other modes before
		k := (i + t.Index) % 4
		recycled := k == 2
		// ... every fourth text by a tolerant-mode parser (on a valid program tolerant mode has nothing to forgive, the
		// tree is a function of the token sequence there as well), every fourth under observing plugins
		tolerant := k == 1
		observed := k == 3
		if observed {
			t.Count("texts_parsed_under_observing_interceptors", 1)
		}
		if !t.Guard("parse", wit, func() {
			switch {
			case observed:
				po = parseObserved(src, t.Index+i)
			case recycled:
				po = parseRecycled(src, t.Index+i)
			case tolerant:
				po = parse(src, Mode{Tolerant: true})
			default:
				po = parse(src, Mode{})
			}
		}) {
			continue
		}
		if tolerant {
			t.Count("texts_parsed_in_tolerant_mode", 1)
		}
		if recycled {
			t.Count("texts_parsed_by_a_long_lived_reconfigured_builder", 1)
		}
		t.Count("decided", 1)
		if po.Err != nil || len(po.Errors) > 0 {
			w := wit()
			msg := ""
			if len(po.Errors) > 0 {
				msg = po.Errors[0].Message
				w["errors"] = po.Errors
			}
			t.Violate("rejects-valid-program", errKey(msg), fmt.Sprintf("valid ECMAScript subset program rejected: %s: %s", msg, gen.Describe(src)), w)
			continue
		}
		got := norm.S(po.Prog)
		if got != want {
			w := wit()
			w["got_tree"] = got
			t.Violate("tree-mismatch", diffKey(want, got), "tree differs from the ECMAScript reading of: "+gen.Describe(src), w)
		}
	}
}

var binAsg = append(append([]string{}, gen.BinOps...), gen.AsgOps...)

func mkOp(op string, l, r *gen.Node) *gen.Node {
	if gen.BinPrec(op) >= 0 {
		return gen.Bin(op, l, r)
	}
	if l.K != gen.KIdent && l.K != gen.KDot && l.K != gen.KIdx {
		return nil // not an assignment target
	}
	return gen.Asg(op, l, r)
}

var decorations = []func(x string) *gen.Node{
	func(x string) *gen.Node { return gen.Id(x) },
	func(x string) *gen.Node { return gen.Un("-", gen.Id(x)) },
	func(x string) *gen.Node { return gen.Un("!", gen.Id(x)) },
	func(x string) *gen.Node { return gen.Un("++", gen.Id(x)) },
	func(x string) *gen.Node { return gen.Un("--", gen.Id(x)) },
	func(x string) *gen.Node { return gen.Post("++", gen.Id(x)) },
	func(x string) *gen.Node { return gen.Post("--", gen.Id(x)) },
	func(x string) *gen.Node { return gen.Dot(gen.Id(x), "p") },
	func(x string) *gen.Node { return gen.Call(gen.Id(x), gen.Id("y")) },
	func(x string) *gen.Node { return gen.Idx(gen.Id(x), gen.Num("0")) },
	func(x string) *gen.Node { return gen.Num("1") },
	func(x string) *gen.Node { return gen.Un("-", gen.Num("2")) },
}

var pairLayouts = []NamedLayout{stdLayouts[0], stdLayouts[1]}

// runOpPairs: case = (op1, op2); both tree shapes, each operand decorated in turn.
func runOpPairs(t *fw.T) {
	n := len(binAsg)
	op1, op2 := binAsg[t.Index/n], binAsg[t.Index%n]
	for shape := 0; shape < 2; shape++ {
		for pos := 0; pos < 3; pos++ {
			for d := range decorations {
				if pos > 0 && d == 0 {
					continue // the undecorated tree is produced once (pos 0)
				}
				ops := []*gen.Node{gen.Id("a"), gen.Id("b"), gen.Id("c")}
				ops[pos] = decorations[d]("x")
				var tree *gen.Node
				if shape == 0 {
					l := mkOp(op1, ops[0], ops[1])
					if l == nil {
						continue
					}
					tree = mkOp(op2, l, ops[2])
				} else {
					rr := mkOp(op2, ops[1], ops[2])
					if rr == nil {
						continue
					}
					tree = mkOp(op1, ops[0], rr)
				}
				if tree == nil {
					continue
				}
				prog := gen.Prog(gen.ExprStmt(tree))
				checkParsesAs(t, prog, pairLayouts, "op-pair")
				t.Distinct(prog.S())
				t.Feature("operator-pairs", op1+" "+op2)
			}
		}
	}
	if t.Index == 37 {
		t.Sample(map[string]any{"stratum": "op-pairs", "op1": op1, "op2": op2, "example": gen.Render(gen.Prog(gen.ExprStmt(mkOp(op1, gen.Id("a"), mkOp2(op2)))), t.Rand(), gen.EmitOpts{}, stdLayouts[0].L).Src})
	}
}

func mkOp2(op string) *gen.Node {
	if n := mkOp(op, gen.Id("b"), gen.Id("c")); n != nil {
		return n
	}
	return gen.Id("b")
}

// runOpTriples: case = (op1, op2, op3); all five shapes of a op1 b op2 c op3 d.
func runOpTriples(t *fw.T) {
	n := len(binAsg)
	o1, o2, o3 := binAsg[t.Index/(n*n)], binAsg[(t.Index/n)%n], binAsg[t.Index%n]
	a, b, c, d := gen.Id("a"), gen.Id("b"), gen.Id("c"), gen.Id("d")
	r := t.Rand()
	if t.Thorough() {
		// decorate one random operand per case
		x := decorations[1+r.IntN(len(decorations)-1)]("x")
		switch r.IntN(4) {
		case 0:
			a = x
		case 1:
			b = x
		case 2:
			c = x
		default:
			d = x
		}
	}
	mk := func(op string, l, r *gen.Node) *gen.Node {
		if l == nil || r == nil {
			return nil
		}
		return mkOp(op, l, r)
	}
	shapes := []*gen.Node{
		mk(o3, mk(o2, mk(o1, a, b), c), d),
		mk(o3, mk(o1, a, mk(o2, b, c)), d),
		mk(o2, mk(o1, a, b), mk(o3, c, d)),
		mk(o1, a, mk(o3, mk(o2, b, c), d)),
		mk(o1, a, mk(o2, b, mk(o3, c, d))),
	}
	for _, tree := range shapes {
		if tree == nil {
			continue
		}
		prog := gen.Prog(gen.ExprStmt(tree))
		checkParsesAs(t, prog, pairLayouts[:1], "op-triple")
		t.Distinct(prog.S())
	}
	t.Feature("operator-triples", o1+" "+o2+" "+o3)
}

// ---- statement-form matrix ----

type stmtForm struct {
	name string
	mk   func(i int) *gen.Node
	fn   bool // only valid inside a function
	decl bool // declaration: not allowed as brace-less body
}

func v(i int, s string) string { return fmt.Sprintf("%s%d", s, i) }

var stmtForms = []stmtForm{
	{"let=", func(i int) *gen.Node { return gen.Let(v(i, "v"), gen.Bin("+", gen.Id("a"), gen.Num("1"))) }, false, true},
	{"let", func(i int) *gen.Node { return gen.Let(v(i, "w"), nil) }, false, true},
	{"ident", func(i int) *gen.Node { return gen.ExprStmt(gen.Id("a")) }, false, false},
	{"(", func(i int) *gen.Node {
		return gen.ExprStmt(gen.Bin("*", gen.Bin("+", gen.Id("a"), gen.Id("b")), gen.Id("c")))
	}, false, false},
	{"[", func(i int) *gen.Node {
		return gen.ExprStmt(gen.Dot(&gen.Node{K: gen.KArr, Kids: []*gen.Node{gen.Num("1"), gen.Num("2")}}, "len"))
	}, false, false},
	{"-", func(i int) *gen.Node { return gen.ExprStmt(gen.Un("-", gen.Id("a"))) }, false, false},
	{"++", func(i int) *gen.Node { return gen.ExprStmt(gen.Un("++", gen.Id("a"))) }, false, false},
	{"--", func(i int) *gen.Node { return gen.ExprStmt(gen.Un("--", gen.Id("b"))) }, false, false},
	{"!", func(i int) *gen.Node { return gen.ExprStmt(gen.Un("!", gen.Id("a"))) }, false, false},
	{"string", func(i int) *gen.Node { return gen.ExprStmt(gen.Str("s")) }, false, false},
	{"number", func(i int) *gen.Node { return gen.ExprStmt(gen.Num("42")) }, false, false},
	{"template", func(i int) *gen.Node { return gen.ExprStmt(&gen.Node{K: gen.KTpl, Text: "t"}) }, false, false},
	{"(function", func(i int) *gen.Node {
		return gen.ExprStmt(gen.Call(&gen.Node{K: gen.KFunc, Kids: []*gen.Node{gen.ExprStmt(gen.Id("q"))}}))
	}, false, false},
	{"({", func(i int) *gen.Node {
		return gen.ExprStmt(gen.Dot(&gen.Node{K: gen.KObj, Kids: []*gen.Node{gen.Id("k"), gen.Num("1")}}, "k"))
	}, false, false},
	{"call", func(i int) *gen.Node { return gen.ExprStmt(gen.Call(gen.Id("f"), gen.Id("a"), gen.Num("2"))) }, false, false},
	{"assign", func(i int) *gen.Node { return gen.ExprStmt(gen.Asg("=", gen.Id("a"), gen.Id("b"))) }, false, false},
	{"postfix", func(i int) *gen.Node { return gen.ExprStmt(gen.Post("++", gen.Id("a"))) }, false, false},
	{"function-decl", func(i int) *gen.Node {
		return &gen.Node{K: gen.KFuncDecl, Name: v(i, "f"), Params: []string{"p"}, Kids: []*gen.Node{{K: gen.KReturn, Kids: []*gen.Node{gen.Id("p")}}}}
	}, false, true},
	{"return-value", func(i int) *gen.Node { return &gen.Node{K: gen.KReturn, Kids: []*gen.Node{gen.Id("a")}} }, true, false},
	{"return", func(i int) *gen.Node { return &gen.Node{K: gen.KReturn} }, true, false},
	{"if-block", func(i int) *gen.Node {
		return &gen.Node{K: gen.KIf, Kids: []*gen.Node{gen.Id("c"), {K: gen.KBlock, Kids: []*gen.Node{gen.ExprStmt(gen.Id("a"))}}}}
	}, false, false},
	{"if-braceless", func(i int) *gen.Node {
		return &gen.Node{K: gen.KIf, Kids: []*gen.Node{gen.Id("c"), gen.ExprStmt(gen.Id("a"))}}
	}, false, false},
	{"if-else-braceless", func(i int) *gen.Node {
		return &gen.Node{K: gen.KIf, Kids: []*gen.Node{gen.Id("c"), gen.ExprStmt(gen.Id("a")), gen.ExprStmt(gen.Id("b"))}}
	}, false, false},
	{"if-else-block", func(i int) *gen.Node {
		return &gen.Node{K: gen.KIf, Kids: []*gen.Node{gen.Id("c"), {K: gen.KBlock}, {K: gen.KBlock, Kids: []*gen.Node{gen.ExprStmt(gen.Id("b"))}}}}
	}, false, false},
	{"while", func(i int) *gen.Node {
		return &gen.Node{K: gen.KWhile, Kids: []*gen.Node{gen.Bin("<", gen.Id("a"), gen.Num("3")), gen.ExprStmt(gen.Post("++", gen.Id("a")))}}
	}, false, false},
	{"for-let", func(i int) *gen.Node {
		return &gen.Node{K: gen.KFor, Kids: []*gen.Node{gen.Let(v(i, "i"), gen.Num("0")), gen.Bin("<", gen.Id(v(i, "i")), gen.Num("3")), gen.Post("++", gen.Id(v(i, "i"))), {K: gen.KBlock}}}
	}, false, false},
	{"for-empty", func(i int) *gen.Node {
		return &gen.Node{K: gen.KFor, Kids: []*gen.Node{nil, nil, nil, gen.ExprStmt(gen.Id("a"))}}
	}, false, false},
	{"block", func(i int) *gen.Node {
		return &gen.Node{K: gen.KBlock, Kids: []*gen.Node{gen.ExprStmt(gen.Id("a")), gen.ExprStmt(gen.Id("b"))}}
	}, false, false},
	{"empty-block", func(i int) *gen.Node { return &gen.Node{K: gen.KBlock} }, false, false},
}

var matrixLayouts = []NamedLayout{
	{"; same line", gen.EmitOpts{}, gen.Layout{Semi: 1, Space: 1}},
	{"; + newline", gen.EmitOpts{}, gen.Layout{Semi: 1, Space: 1, StmtNL: 1}},
	{"newline only", gen.EmitOpts{}, gen.Layout{Semi: 0, Space: 1, StmtNL: 1}},
	{"newline only, minimal", gen.EmitOpts{}, gen.Layout{Semi: 0, Space: 0, StmtNL: 1, NoTrailingNL: true}},
	{"newline only + comments", gen.EmitOpts{}, gen.Layout{Semi: 0, Space: 1, StmtNL: 1, Comment: 0.6}},
}

func runStmtMatrix(t *fw.T) {
	n := len(stmtForms)
	f1, f2 := stmtForms[t.Index/n], stmtForms[t.Index%n]
	s1, s2 := f1.mk(1), f2.mk(2)
	needFn := f1.fn || f2.fn
	var progs []*gen.Node
	if !needFn {
		progs = append(progs, gen.Prog(s1, s2))
		progs = append(progs, gen.Prog(&gen.Node{K: gen.KBlock, Kids: []*gen.Node{f1.mk(3), f2.mk(4)}}))
	}
	progs = append(progs, gen.Prog(&gen.Node{K: gen.KFuncDecl, Name: "outer", Kids: []*gen.Node{f1.mk(5), f2.mk(6)}}))
	if f2.fn {
		progs = append(progs, gen.Prog(gen.Let("h", &gen.Node{K: gen.KFunc, Kids: []*gen.Node{f1.mk(7), f2.mk(8)}})))
	} else {
		progs = append(progs, gen.Prog(gen.Let("h", &gen.Node{K: gen.KFunc, Kids: []*gen.Node{f1.mk(7), f2.mk(8)}}), f2.mk(9)))
	}
	// second form as brace-less body after the first
	if !f2.decl && !needFn {
		progs = append(progs,
			gen.Prog(f1.mk(1), &gen.Node{K: gen.KIf, Kids: []*gen.Node{gen.Id("c"), f2.mk(2)}}, f1.mk(3)),
			gen.Prog(&gen.Node{K: gen.KWhile, Kids: []*gen.Node{gen.Id("c"), f2.mk(2)}}, f1.mk(3)),
			gen.Prog(&gen.Node{K: gen.KFor, Kids: []*gen.Node{nil, gen.Id("c"), nil, f2.mk(2)}}, f1.mk(3)),
		)
		if !f1.decl && !f1.fn {
			th := f1.mk(1)
			if th.K != gen.KBlock && endsOpenIf(th) {
				th = &gen.Node{K: gen.KBlock, Kids: []*gen.Node{th}}
			}
			progs = append(progs, gen.Prog(&gen.Node{K: gen.KIf, Kids: []*gen.Node{gen.Id("c"), th, f2.mk(2)}}, f1.mk(3)))
		}
	}
	for _, p := range progs {
		checkParsesAs(t, p, matrixLayouts, "stmt-matrix")
		t.Distinct(p.S())
	}
	t.Feature("statement-pairs", f1.name+" ; "+f2.name)
}

func endsOpenIf(n *gen.Node) bool {
	switch n.K {
	case gen.KIf:
		if len(n.Kids) < 3 || n.Kids[2] == nil {
			return true
		}
		return endsOpenIf(n.Kids[2])
	case gen.KWhile:
		return endsOpenIf(n.Kids[1])
	case gen.KFor:
		return endsOpenIf(n.Kids[3])
	}
	return false
}

func runC02Random(t *fw.T) {
	r := t.Rand()
	o := gen.SynOpts{ExprDepth: 2 + r.IntN(4), StmtDepth: 1 + r.IntN(3), MaxStmts: 1 + r.IntN(5), NumDot: r.IntN(4) == 0}
	if t.Thorough() && r.IntN(4) == 0 {
		o.ExprDepth = 8
		o.StmtDepth = 5
	}
	g := gen.NewSyn(r, o)
	prog := g.Program()
	lays := append([]NamedLayout{}, stdLayouts[:6]...)
	if t.Thorough() {
		lays = append(lays, stdLayouts[6:]...)
		lays = append(lays, randomLayout(r), randomLayout(r))
	}
	checkParsesAs(t, prog, lays, "random")
	t.Distinct(prog.S())
	prog.Walk(func(n *gen.Node) {
		if n.K == gen.KBin || n.K == gen.KAsg {
			for _, k := range n.Kids {
				if k.K == gen.KBin || k.K == gen.KAsg || k.K == gen.KUn || k.K == gen.KPost {
					t.Feature("parent-child-operators", n.Op+" over "+k.Op)
				}
			}
		}
	})
	if t.WantSample() && prog.Size() < 40 {
		t.Sample(map[string]any{"stratum": "random", "layout": lays[2].Name, "source": gen.Render(prog, r, lays[2].E, lays[2].L).Src})
	}
}

func init() {
	n := len(binAsg)
	nf := len(stmtForms)
	fw.Register(&fw.Property{
		ID: "C02", Level: "exploration",
		Rule: "generated syntax trees rendered by an ECMAScript-grammar unparser in several layouts; every text is first confirmed by acorn (must read it as the generated tree, else the case is dropped as oracle-inconsistent), then xjs's tree (S-expression without grouping/positions/comments) must equal the generated one. " +
			"op-pairs/op-triples enumerate all 16^2 / 16^3 operator combinations in every tree shape; stmt-matrix enumerates all ordered pairs of 29 statement forms under 5 separator styles and 4 contexts. distinct = distinct trees (hash of S-expression).",
		Assumptions: []string{
			"acorn 8 (bundled with node 20) implements the ECMAScript grammar on the subset",
			"subset boundary (not judged): integer literals >= 2^63, legacy octal, trailing commas, empty statements, keyword property names, ${} in backtick strings are not generated",
		},
		Teardown: closeEngine,
		Strata: []*fw.Stratum{
			{Name: "op-pairs", Quick: n * n, Thorough: n * n, Exhaustive: true, Run: runOpPairs},
			{Name: "op-triples", Quick: n * n * n, Thorough: n * n * n, Exhaustive: true, Run: runOpTriples},
			{Name: "stmt-matrix", Quick: nf * nf, Thorough: nf * nf, Exhaustive: true, Run: runStmtMatrix},
			{Name: "random", Quick: 30000, Thorough: 200000, Run: runC02Random},
		},
	})
}
