package mon

import (
	"fmt"
	"os"
	"os/exec"
	"path/filepath"
	"regexp"
	"strconv"
	"strings"

	"verif/fw"
)

var execsRe = regexp.MustCompile(`execs: (\d+)`)
var interestingRe = regexp.MustCompile(`new interesting: \d+ \(total: (\d+)\)`)

// runNativeFuzz runs a Go native fuzz target (coverage-guided) for a fixed number of executions and turns
// every crasher it leaves behind into a violation by re-running the monitor on it.
func runNativeFuzz(t *fw.T, target string, execs int, judge func(input string) *Finding) {
	dir := "/verif/harness"
	cmd := exec.Command("go", "test", "-tags", "verif", "-run=^$", "-fuzz=^"+target+"$", fmt.Sprintf("-fuzztime=%dx", execs), "-parallel=16", "./fuzz")
	cmd.Dir = dir
	cmd.Env = append(os.Environ(), "GOFLAGS=-mod=mod", "GOPROXY=off", "GOSUMDB=off", "GOTOOLCHAIN=local", "GOMAXPROCS=16")
	out, err := cmd.CombinedOutput()
	s := string(out)
	if m := execsRe.FindAllStringSubmatch(s, -1); len(m) > 0 {
		n, _ := strconv.Atoi(m[len(m)-1][1])
		t.Count("native_fuzz_executions", n)
	}
	if m := interestingRe.FindAllStringSubmatch(s, -1); len(m) > 0 {
		n, _ := strconv.Atoi(m[len(m)-1][1])
		t.Count("native_fuzz_corpus_entries", n)
	}
	crashDir := filepath.Join(dir, "fuzz", "testdata", "fuzz", target)
	files, _ := filepath.Glob(filepath.Join(crashDir, "*"))
	judged := 0
	for _, f := range files {
		b, rerr := os.ReadFile(f)
		if rerr != nil {
			continue
		}
		input, ok := parseFuzzFile(string(b))
		if !ok {
			continue
		}
		judged++
		if fd := judge(input); fd != nil {
			t.Violate(fd.Clause, fd.Key, fd.What+" (found by native fuzzing) in "+fmt.Sprintf("%q", clip(input, 160)), map[string]any{"input": input, "input_quoted": fmt.Sprintf("%q", clip(input, 400)), "crasher_file": f})
		} else {
			// the monitor no longer fails on it (fixed code): the stale crasher is removed so it does not fail later runs
			os.Remove(f)
		}
	}
	if err != nil && judged == 0 {
		t.Inconclusive("native fuzzing run failed without leaving a crasher", clip(tailStr(s, 600), 600))
	}
	t.Distinct(target)
}

func tailStr(s string, n int) string {
	if len(s) > n {
		return s[len(s)-n:]
	}
	return s
}

// parseFuzzFile decodes a "go test fuzz v1" corpus file holding one []byte value.
func parseFuzzFile(s string) (string, bool) {
	lines := strings.Split(strings.TrimSpace(s), "\n")
	if len(lines) < 2 || !strings.HasPrefix(lines[0], "go test fuzz v1") {
		return "", false
	}
	l := strings.TrimSpace(lines[1])
	if !strings.HasPrefix(l, "[]byte(") || !strings.HasSuffix(l, ")") {
		return "", false
	}
	q := l[len("[]byte(") : len(l)-1]
	v, err := strconv.Unquote(q)
	if err != nil {
		return "", false
	}
	return v, true
}
