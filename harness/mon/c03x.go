package mon

import (
	"fmt"

	"verif/fw"
	"verif/gen"
)

// Depth 4 for C03: every (parent, slot, child, slot, grandchild, slot, great-grandchild) combination over the same 25
// operator kinds and slot restrictions as the depth-3 enumeration. One case = one depth-3 triple extended by every
// admissible (slot of the grandchild, great-grandchild kind). The thorough tier runs all of them; the quick tier a
// seed-chosen sixteenth.

func runC03Depth4Triple(t *fw.T, ti int) {
	tr := c03Triples[ti]
	gk := c03Kinds[tr.g]
	for gs, gslot := range gk.slots {
		for hi, hk := range c03Kinds {
			if !hk.fits(gslot) {
				continue
			}
			nx := 0
			h := fill(c03Kinds[hi], -1, nil, &nx)
			g := fill(gk, gs, h, &nx)
			c := fill(c03Kinds[tr.c], tr.cs, g, &nx)
			p := fill(c03Kinds[tr.p], tr.ps, c, &nx)
			checkAssembled(t, p, "depth4")
			t.Count("depth4_trees", 1)
		}
	}
	t.Feature("depth-4 chains: parent > child > grandchild", fmt.Sprintf("%s[%d] > %s[%d] > %s", c03Kinds[tr.p].name, tr.ps, c03Kinds[tr.c].name, tr.cs, gk.name))
}

func init() {
	p := fw.Lookup("C03")
	n := len(c03Triples)
	p.Strata = append(p.Strata,
		&fw.Stratum{Name: "exhaustive-depth4", Quick: 0, Thorough: n, Exhaustive: true, Run: func(t *fw.T) { runC03Depth4Triple(t, t.Index) }},
		&fw.Stratum{Name: "sampled-depth4", Quick: n / 16, Thorough: 0, Run: func(t *fw.T) {
			r := t.Rand()
			runC03Depth4Triple(t, r.IntN(len(c03Triples)))
		}},
	)
	p.Rule += " exhaustive-depth4 (thorough) extends every depth-3 combination by every admissible great-grandchild; the quick tier runs a seed-chosen sixteenth of them."
	_ = gen.Id
}
