package mon

import (
	"fmt"

	"github.com/xjslang/xjs/ast"

	"verif/fw"
	"verif/gen"
	"verif/norm"
)

// Large-program strata: the size-parameterised programs of gen.Big (long lists and chains, deep nesting of every
// bracket kind, wide literals, very long lexemes) run through the per-program monitors of the properties that
// quantify over "all programs". One case = one (kind, size).

func bigCase(t *fw.T) (*gen.Node, string, int) {
	r := t.Rand()
	kind := gen.BigKinds[t.Index%len(gen.BigKinds)]
	n := gen.BigSize(r, kind, t.Thorough())
	t.Feature("large-program kinds", kind)
	t.Count("large_programs", 1)
	return gen.Big(r, kind, n), kind, n
}

// limitCfgs (single goroutine): large programs are compiled under the quick tier's number of option sets also in the
// thorough tier - the per-case CPU budget is a statement about xjs's work on one input, and twenty option sets times
// format / re-parse / format again on a 5 000-node program is the harness's volume, not xjs's.
var limitCfgs bool

var bigLayouts = []NamedLayout{stdLayouts[0], stdLayouts[1], stdLayouts[2], stdLayouts[4], stdLayouts[7]}

func init() {
	quick, thorough := 2*len(gen.BigKinds), 10*len(gen.BigKinds)
	add := func(id string, run func(t *fw.T)) {
		p := fw.Lookup(id)
		p.Strata = append(p.Strata, &fw.Stratum{Name: "large-programs", Quick: quick, Thorough: thorough, Run: run})
		p.Rule += " large-programs: size-parameterised valid programs (long statement lists and operator chains, nesting of every bracket kind to depth 30-230 (thorough 500), wide literals / argument / parameter lists, lexemes of thousands of characters) go through the same per-program check."
	}
	add("C01", func(t *fw.T) {
		prog, kind, n := bigCase(t)
		r := t.Rand()
		l := bigLayouts[r.IntN(len(bigLayouts))]
		rd := gen.Render(prog, r, l.E, l.L)
		checkBehaviour(t, rd.Src, l.Name+"/large:"+kind, []Cfg{CfgCompact, CfgPretty, CfgPrettyTabN})
		t.Distinct(fmt.Sprint(kind, n))
	})
	add("C02", func(t *fw.T) {
		prog, kind, n := bigCase(t)
		r := t.Rand()
		checkParsesAs(t, prog, []NamedLayout{bigLayouts[r.IntN(len(bigLayouts))], bigLayouts[r.IntN(len(bigLayouts))]}, "large/"+kind)
		t.Distinct(fmt.Sprint(kind, n))
	})
	add("C03", func(t *fw.T) {
		prog, kind, n := bigCase(t)
		r := t.Rand()
		l := bigLayouts[r.IntN(len(bigLayouts))]
		rd := gen.Render(prog, r, l.E, l.L)
		var po ParseOut
		if !t.Guard("parse", func() map[string]any { return map[string]any{"source": clip(rd.Src, 2000)} }, func() { po = parse(rd.Src, Mode{}) }) {
			return
		}
		if po.Err != nil {
			t.Inconclusive("source not accepted (C02's business)", clip(rd.Src, 300))
			return
		}
		checkRoundTrip(t, po.Prog, norm.S(po.Prog), "large/"+kind, func() string { return fmt.Sprintf("large program %s(%d)", kind, n) })
		t.Distinct(fmt.Sprint(kind, n))
	})
	// the same programs assembled from ast nodes directly (no parser involved before the print): what the printers emit
	// for thousands of empty calls, wide lists and deep nesting parses back to the tree it was printed from
	{
		p := fw.Lookup("C03")
		p.Strata = append(p.Strata, &fw.Stratum{Name: "large-assembled-programs", Quick: quick, Thorough: thorough, Run: func(t *fw.T) {
			prog, kind, n := bigCase(t)
			if kind == "long-string" || kind == "long-template" {
				// the assembler hands the literal's source spelling to the node; for lexemes with escapes that is not what the
				// lexer would have stored (the literal strata of C03 assemble those with the lexer's help)
				t.Count("large_programs_not_assembled", 1)
				return
			}
			var asm *ast.Program
			func() {
				defer func() { recover() }() // node kinds the assembler does not build
				asm = toProgram(prog)
			}()
			if asm == nil {
				t.Count("large_programs_not_assembled", 1)
				return
			}
			t.Count("large_programs_assembled", 1)
			checkRoundTrip(t, asm, prog.S(), "large-assembled/"+kind, func() string { return fmt.Sprintf("large assembled program %s(%d)", kind, n) })
			t.Distinct(fmt.Sprint("asm", kind, n))
		}})
	}
	add("C06", func(t *fw.T) {
		prog, kind, n := bigCase(t)
		limitCfgs = true
		defer func() { limitCfgs = false }()
		checkC06Prog(t, t.Rand(), prog)
		t.Distinct(fmt.Sprint(kind, n))
	})
	add("C08", func(t *fw.T) {
		prog, kind, n := bigCase(t)
		limitCfgs = true
		defer func() { limitCfgs = false }()
		checkC08Prog(t, t.Rand(), prog)
		t.Distinct(fmt.Sprint(kind, n))
	})
	add("C10", func(t *fw.T) {
		prog, kind, n := bigCase(t)
		r := t.Rand()
		l := bigLayouts[r.IntN(len(bigLayouts))]
		rd := gen.Render(prog, r, l.E, l.L)
		lexCase(t, rd.Src, "large program "+kind)
		checkAgainstTokenTable(t, rd)
		t.Distinct(fmt.Sprint(kind, n))
	})
	_ = ast.Program{}
}
