package mon

import (
	"fmt"
	"github.com/xjslang/xjs/lexer"
	"github.com/xjslang/xjs/parser"
	"github.com/xjslang/xjs/token"
	"math/rand/v2"
	"strings"

	"verif/fw"
	"verif/gen"
)

// ---- C07: literal values survive transpilation ------------------------------

// litCtx maps a literal case (by category prefix "<position>/") to its program template; see litContexts.
type litCase struct {
	text string // literal source text (with its delimiters)
	cat  string // category for class keys
}

// whole: the case's text is a whole program of several literals (its completion value is what is compared)
func (lc litCase) whole() bool { return strings.HasPrefix(lc.cat, "sequence") }

func (lc litCase) program() string {
	if lc.whole() {
		return lc.text
	}
	for _, c := range litContexts {
		if strings.HasPrefix(lc.cat, c.name+"/") {
			return strings.ReplaceAll(c.tmpl, "%s", lc.text)
		}
	}
	return "v = " + lc.text
}

// literal positions other than the right-hand side of an assignment: property key of an object literal (a printer may
// choose to quote or unquote keys), computed member key, array element, call argument, operand. Each template's
// completion value is the literal's value as that position sees it (keys: the property name).
var litContexts = []struct{ name, tmpl string }{
	{"object-key", "v = {%s: 1}\nObject.keys(v)[0]"},
	{"member-key", "v = {}\nv[%s] = 1\nObject.keys(v)[0]"},
	{"array-element", "v = [0, %s, 0][1]"},
	{"call-argument", "v = (function (a, b) { return b })(0, %s)"},
	{"operand", "v = [%s + \"\", %s][0]"},
	// the literal ends a statement and the next statement begins with a bracket: the third output is printed WITHOUT
	// semicolons, so the printer has to put one back right behind the literal
	{"before-bracket-statement", "v = %s;\n[v][0]"},
	// a parenthesised literal as the object of a member access: (255).valueOf(), ("a").valueOf()
	{"grouped-receiver", "v = (%s).valueOf()"},
}

// prettyFor: the pretty configuration a literal case is printed with (default options; no semicolons for the
// before-bracket-statement position).
func prettyFor(lc litCase) Cfg {
	if strings.HasPrefix(lc.cat, "before-bracket-statement/") || strings.HasPrefix(lc.cat, "sequence-nosemi/") {
		return CfgPrettyTabN
	}
	return CfgPretty
}

// checkLiterals: one batch. Each literal is compiled inside `v = <lit>` (compact and pretty); the source
// literal and both emitted expressions are evaluated by the reference engine.
func checkLiterals(t *fw.T, lits []litCase, label string) {
	type job struct {
		lc      litCase
		compact string
		pretty  string
	}
	var jobs []job
	// every third group of cases goes through a lexer plugin: the literal is preceded by a marker character that a token
	// interceptor consumes (ReadChar) before it hands over to next() - the literal is lexed by the lexer's own scanners,
	// but the token does not start where token scanning started
	plugged := (t.Index/16)%3 == 1
	if plugged {
		t.Count("batches_lexed_behind_a_plugin_consumed_marker", 1)
	}
	for _, lc := range lits {
		src := lc.program()
		if plugged && !lc.whole() {
			m := lc
			m.text = "@" + lc.text
			src = m.program()
		}
		var po ParseOut
		var c, p string
		ok := t.Guard("parse/compile literal", func() map[string]any {
			return map[string]any{"literal": lc.text, "literal_quoted": fmt.Sprintf("%q", lc.text)}
		}, func() {
			if plugged && !lc.whole() {
				lb := lexer.NewBuilder()
				lb.UseTokenInterceptor(func(l *lexer.Lexer, next func() token.Token) token.Token {
					if l.CurrentChar == '@' {
						l.ReadChar()
					}
					return next()
				})
				pp := parser.NewBuilder(lb).Build(src)
				prog, err := pp.ParseProgram()
				po = ParseOut{Prog: prog, Err: err, Errors: pp.Errors()}
			} else {
				po = parse(src, Mode{})
			}
			if po.Err == nil {
				if (t.Index/16)%2 == 1 {
					// long-lived Compiler values: one literal after the other through the same compilers
					c = CfgCompact.CompileReused(po.Prog).Code
					p = prettyFor(lc).CompileReused(po.Prog).Code
				} else {
					c = CfgCompact.Compile(po.Prog).Code
					p = prettyFor(lc).Compile(po.Prog).Code
				}
			}
		})
		if !ok {
			continue
		}
		t.Count("literals", 1)
		if po.Err != nil {
			t.Count("not_accepted_by_xjs_not_judged", 1)
			continue
		}
		jobs = append(jobs, job{lc, c, p})
	}
	if len(jobs) == 0 {
		return
	}
	items := make([]string, 0, 3*len(jobs))
	for _, j := range jobs {
		items = append(items, j.lc.program(), j.compact, j.pretty) // each evaluated as a program: completion value of `v = <literal>`
	}
	vals, err := engine(t).Lits(items)
	if err != nil {
		t.Inconclusive("reference engine (node) unavailable", err.Error())
		return
	}
	for i, j := range jobs {
		want, gc, gp := vals[3*i], vals[3*i+1], vals[3*i+2]
		t.Count("programs", 1)
		if strings.HasPrefix(want, "err:") || strings.HasPrefix(want, "other:") {
			t.Count("source_literal_rejected_by_engine_not_judged", 1)
			continue
		}
		t.Count("disagreements_checked", 1)
		t.Count("literals_judged", 1)
		t.Count("literals_judged_in_stratum_"+label, 1)
		for k, got := range []string{gc, gp} {
			if got == want {
				continue
			}
			mode := []string{"compact", "pretty"}[k]
			emitted := []string{j.compact, j.pretty}[k]
			kind := "value differs"
			if strings.HasPrefix(got, "err:") {
				kind = "emitted literal is a " + strings.TrimPrefix(got, "err:")
			}
			t.Violate("literal-value", label+"/"+j.lc.cat+"/"+kind, fmt.Sprintf("%s output of %q is %q: %s (source value %s, emitted value %s)", mode, j.lc.text, emitted, kind, clip(want, 60), clip(got, 60)),
				map[string]any{"literal": j.lc.text, "literal_quoted": fmt.Sprintf("%q", j.lc.text), "emitted": emitted, "emitted_quoted": fmt.Sprintf("%q", emitted), "mode": mode, "source_value": want, "emitted_value": got})
			break
		}
	}
}

func catOfCode(cp int) string {
	switch {
	case cp == '"' || cp == '\'' || cp == '`':
		return "decodes to a quote"
	case cp == '\\':
		return "decodes to a backslash"
	case cp == '\n' || cp == '\r' || cp == 0x2028 || cp == 0x2029:
		return "decodes to a line terminator"
	case cp == 0:
		return "decodes to NUL"
	case cp < 0x20 || cp == 0x7f:
		return "decodes to a control character"
	case cp < 0x80:
		return "decodes to ASCII"
	case cp < 0x100:
		return "decodes to U+0080..U+00FF"
	case cp >= 0xD800 && cp <= 0xDFFF:
		return "decodes to a surrogate"
	case cp > 0xFFFF:
		return "decodes to an astral code point"
	}
	return "decodes to a BMP code point"
}

func quoteBoth(body, cat string) []litCase {
	return []litCase{{`"` + body + `"`, `"/` + cat}, {`'` + body + `'`, `'/` + cat}}
}

const litChunk = 256

func runC07Hex(t *fw.T) { // every \xHH, alone and between plain characters
	var lits []litCase
	for v := 0; v < 256; v++ {
		for _, body := range []string{fmt.Sprintf(`\x%02x`, v), fmt.Sprintf(`a\x%02Xb`, v)} {
			lits = append(lits, quoteBoth(body, catOfCode(v))...)
		}
		t.Distinct(fmt.Sprintf("x%02x", v))
	}
	checkLiterals(t, lits, `\xHH`)
}

func runC07U4(t *fw.T) { // every \uHHHH: chunk of 256 code units per case
	var lits []litCase
	for v := t.Index * litChunk; v < (t.Index+1)*litChunk; v++ {
		body := fmt.Sprintf(`\u%04x`, v)
		if v%3 == 0 {
			body = fmt.Sprintf(`\u%04X`, v)
		}
		if v%16 == 5 {
			body = "p" + body + "q"
		}
		lits = append(lits, quoteBoth(body, catOfCode(v))...)
		t.Distinct(fmt.Sprintf("u%04x", v))
	}
	checkLiterals(t, lits, `\uHHHH`)
}

var cpBoundaries = []int{0, 1, 9, 0xA, 0xD, 0x1F, 0x20, 0x22, 0x27, 0x5C, 0x60, 0x7E, 0x7F, 0x80, 0xFF, 0x100, 0x7FF, 0x800, 0x2027, 0x2028, 0x2029, 0x202A, 0xD7FF, 0xD800, 0xDBFF, 0xDC00, 0xDFFF, 0xE000, 0xFFFD, 0xFFFE, 0xFFFF, 0x10000, 0x1F600, 0x10FFFF, 0x110000, 0xFFFFFF}

func runC07UBrace(t *fw.T) { // \u{H..H}: boundaries (case 0) and a 4096-point sample, 1-6 digits with leading zeros
	r := t.Rand()
	var cps []int
	if t.Index == 0 {
		cps = cpBoundaries
	} else {
		for i := 0; i < 128; i++ {
			switch r.IntN(4) {
			case 0:
				cps = append(cps, r.IntN(0x80))
			case 1:
				cps = append(cps, r.IntN(0x10000))
			default:
				cps = append(cps, r.IntN(0x110000))
			}
		}
	}
	var lits []litCase
	for _, cp := range cps {
		// any number of leading zeros is allowed inside the braces
		forms := []string{fmt.Sprintf(`\u{%x}`, cp), fmt.Sprintf(`\u{%X}`, cp), fmt.Sprintf(`\u{%06x}`, cp), fmt.Sprintf(`\u{%07x}`, cp), fmt.Sprintf(`\u{%08X}`, cp), fmt.Sprintf(`\u{%016x}`, cp)}
		if cp < 0x10000 {
			forms = append(forms, fmt.Sprintf(`\u{%04x}`, cp), fmt.Sprintf(`\u{0%x}`, cp))
		}
		for _, f := range forms {
			lits = append(lits, quoteBoth(f, catOfCode(cp))...)
			lits = append(lits, quoteBoth("x"+f+"y", catOfCode(cp))...)
		}
		t.Distinct(fmt.Sprintf("ub%x", cp))
	}
	checkLiterals(t, lits, `\u{...}`)
}

func runC07ASCII(t *fw.T) { // every ASCII byte raw, and every ASCII byte after a backslash
	var lits []litCase
	for b := 0; b < 128; b++ {
		ch := string(rune(b))
		for _, q := range []string{`"`, `'`} {
			if ch != q && ch != "\\" && ch != "\n" && ch != "\r" {
				lits = append(lits, litCase{q + ch + q, q + "/raw byte " + catOfCode(b)}, litCase{q + "k" + ch + "k" + q, q + "/raw byte " + catOfCode(b)})
			}
			lits = append(lits, litCase{q + `\` + ch + q, q + "/backslash + byte"}, litCase{q + "k\\" + ch + "k" + q, q + "/backslash + byte"})
			if ch != "\n" && ch != "\r" {
				// ... and followed by what the \x / \u / octal scanners take for their digits: only the lower-case letters start
				// those escapes, every other byte stands for itself whatever follows it
				lits = append(lits, litCase{q + `\` + ch + "41" + q, q + "/backslash + byte + digits"}, litCase{q + `\` + ch + "0041" + q, q + "/backslash + byte + digits"},
					litCase{q + `\` + ch + "{41}" + q, q + "/backslash + byte + digits"}, litCase{q + "k\\" + ch + "bcd" + q, q + "/backslash + byte + digits"})
			}
		}
		t.Distinct(fmt.Sprintf("a%02x", b))
	}
	checkLiterals(t, lits, "ascii")
}

func runC07Misc(t *fw.T) {
	var lits []litCase
	add := func(cat string, bodies ...string) {
		for _, b := range bodies {
			lits = append(lits, quoteBoth(b, cat)...)
			t.Distinct(cat + b)
		}
	}
	add("line continuation", "a\\\nb", "a\\\r\nb", "a\\\rb", "a\\ b", "a\\ b", "\\\n", "x\\\n\\\ny")
	add("legacy octal", `\0`, `\00`, `\000`, `\1`, `\7`, `\12`, `\101`, `\377`, `\400`, `\08`, `\8`, `\9`, `a\0b`, `\0\0`, `\18`)
	add("surrogates", `😀`, `😀`, `\uD83D`, `\uDE00`, `\uDE00\uD83D`, `a\uD800b`, `\u{D83D}\u{DE00}`, `\uD83D\u{DE00}`, "\U0001F600", "😀\\uD83D\\uDE00")
	add("non-ascii text", "é", "€", "日本語", " ", " ", " ", "\ufeff", "ünï cödé", "\U0001F600\U0001F601")
	add("other quote", `he said 'hi'`, `it's`, `""`, `''`, `"`, `'`, `a"b'c`, `\"`, `\'`, `\\"x`, `\\\"`, `\\'`, `'"'"`)
	add("simple escapes", `\n`, `\t`, `\r`, `\b`, `\f`, `\v`, `\\`, `\\\\`, `\\n`, `\a`, `\z`, `\-`, `\ `, `\/`, `a\tb\nc`)
	add("escape look-alikes", `\\x41`, `\\u0041`, `\\u{41}`, `\x4`, `\x`, `\u004`, `\u{`, `\u{}`, `\u{110000}`, `\u{1F600`, `\xZZ`, `\uZZZZ`, `\x41\x`, `A\u`)
	checkLiterals(t, lits, "misc")
}

var litPieces = []string{`a`, `Z`, ` `, `"`, `'`, "`", `\"`, `\'`, `\\`, `\n`, `\t`, `\0`, `\x41`, `\x22`, `\x27`, `\x5c`, `\x0a`, `\x00`, `\xe9`, `\xFF`, `A`, `"`, `\`, `\u000A`, ` `, `é`,
	`€`, `😀`, `\uD800`, `\u{41}`, `\u{22}`, `\u{5c}`, `\u{a}`, `\u{1F600}`, `\u{10FFFF}`, "\\\n", "é", "€", "😀", `$`, `{`, `}`, `//`, `/*`, `;`, `\8`, `\101`, `%`, `0`, `x`, `u`,
	// escapes that decode to characters which interact with their neighbours: digits (extend a preceding \0 or octal
	// escape), hex letters (extend \x / \u), braces, 'u', 'x'
	`\x31`, `\x39`, `\u0030`, `\u0037`, `\u{38}`, `\u{0031}`, `\1`, `\7`, `\12`, `\x61`, `\x46`, `\u0078`, `\u{75}`, `\x7b`, `\x7d`, `1`, `7`, `9`, `f`, `{`}

// randomEscape is an \x, \u or \u{} escape of a seed-chosen code point, biased towards ASCII.
func randomEscape(r *rand.Rand) string {
	var cp int
	switch r.IntN(4) {
	case 0:
		cp = r.IntN(0x80)
	case 1:
		cp = r.IntN(0x100)
	case 2:
		cp = r.IntN(0x10000)
	default:
		cp = r.IntN(0x110000)
	}
	switch k := r.IntN(3); {
	case k == 0 && cp < 0x100:
		return fmt.Sprintf([]string{`\x%02x`, `\x%02X`}[r.IntN(2)], cp)
	case k <= 1 && cp < 0x10000:
		return fmt.Sprintf([]string{`\u%04x`, `\u%04X`}[r.IntN(2)], cp)
	}
	return fmt.Sprintf([]string{`\u{%x}`, `\u{%X}`, `\u{%04x}`, `\u{%06X}`, `\u{%07x}`, `\u{%010X}`}[r.IntN(6)], cp)
}

func runC07Random(t *fw.T) {
	r := t.Rand()
	var lits []litCase
	for i := 0; i < 64; i++ {
		n := 1 + r.IntN(12)
		q := []string{`"`, `'`}[r.IntN(2)]
		var sb strings.Builder
		for k := 0; k < n; k++ {
			p := litPieces[r.IntN(len(litPieces))]
			if r.IntN(4) == 0 {
				p = randomEscape(r)
			}
			if p == q {
				p = `\` + p
			}
			sb.WriteString(p)
		}
		lits = append(lits, litCase{q + sb.String() + q, q + "/concatenation"})
		t.Distinct(q + sb.String())
	}
	checkLiterals(t, lits, "random")
	if t.WantSample() {
		t.Sample(map[string]any{"stratum": "random-strings", "literal": lits[0].text})
	}
}

func runC07Backticks(t *fw.T) {
	r := t.Rand()
	pieces := []string{"a", " ", "  ", "\t", "\n", " \n", "  \n", "\t\n", "\n\n", "\r", "\r\n", " \r", "\u2028", "\\`", "\\\\", "\\n", "\\t", "\\$", "${1+1}", "${\"s\"}", "$", "{", "}", "\"", "'", "//", "é", "😀", "\\x41", "\\u0041", "\\u{41}", "\\\n", ";", "x y"}
	var lits []litCase
	fixed := []string{"``", "`\\``", "`a\\\\`", "`\\\\`", "`\\\\\\``", "`line1\nline2`", "`trail  \nnext`", "` lead`", "`tail `", "`\n`", "`a\n  b  \n\tc\t\n`", "`${1+1}`", "`a${\"b\"}c`", "`\\${x}`", "`$`", "`\\n`"}
	if t.Index == 0 {
		for _, f := range fixed {
			lits = append(lits, litCase{f, "backtick/fixed"})
			t.Distinct(f)
		}
	}
	for i := 0; i < 48; i++ {
		n := r.IntN(9)
		var sb strings.Builder
		for k := 0; k < n; k++ {
			sb.WriteString(pieces[r.IntN(len(pieces))])
		}
		s := "`" + sb.String() + "`"
		cat := "backtick/single-line"
		if strings.Contains(s, "\n") {
			cat = "backtick/multi-line"
		}
		lits = append(lits, litCase{s, cat})
		t.Distinct(s)
	}
	checkLiterals(t, lits, "backtick")
}

// numberLikeStrings are string literals whose content looks like a number in non-canonical form: as property keys they
// must stay strings ("01" is not the key 1).
var numberLikeStrings = []string{`"01"`, `"007"`, `"1e3"`, `"0x10"`, `"0b11"`, `"0o7"`, `"1.0"`, `"1."`, `".5"`, `"-1"`, `"+1"`, `" 1"`, `"1 "`, `""`, `"1_0"`, `"0"`, `"1"`, `"42"`, `"4294967295"`,
	`"9007199254740993"`, `"1e21"`, `"Infinity"`, `"NaN"`, `"-0"`, `"a"`, `"a b"`, `"a-b"`, `"if"`, `"let"`, `"function"`, `"null"`, `"true"`, `"$"`, `"_x"`, `"x1"`, `"1x"`, `"é"`, `"__proto__"`, `"constructor"`, `"\\x41"`, `"\\u0031"`, `'single'`, `'it\\'s'`, `'"'`}

// adjacent literals: two string literals as the operands of one `+` (a printer that folds constants, or any change that
// lets the text of one literal touch the text of the next, changes the value when the first ends in an escape that the
// second can extend). The completion value is the concatenation.
var litEndings = []string{`\0`, `a\0`, `\7`, `\12`, `\3`, `\\`, `x\\`, `\x41`, `\u00e9`, `\u{41}`, `abc`, `1`, ``, `\n`, `é`, `\ud83d`}
var litStarts = []string{`1`, `7`, `9`, `0`, `08`, `a`, `f`, `F`, `u0041`, `x41`, `n`, `{41}`, `\n`, ` `, ``, `"`, `'`, `\ude00`, `\x31`, `\u0031`}

func runC07Adjacent(t *fw.T) {
	r := t.Rand()
	var lits []litCase
	mk := func(body string) string {
		q := []string{`"`, `'`}[r.IntN(2)]
		body = strings.ReplaceAll(body, q, `\`+q)
		return q + body + q
	}
	for i := 0; i < 24; i++ {
		l1, l2 := litEndings[r.IntN(len(litEndings))], litStarts[r.IntN(len(litStarts))]
		if r.IntN(3) == 0 {
			l1 = gen.RandStrBody(r, 0) + l1
		}
		if r.IntN(3) == 0 {
			l2 = l2 + gen.RandStrBody(r, 0)
		}
		a, b := mk(l1), mk(l2)
		lits = append(lits, litCase{a + " + " + b, "adjacent-literals/+"}, litCase{"[" + a + ", " + b + `].join("")`, "adjacent-literals/array"})
		t.Distinct(a + b)
	}
	checkLiterals(t, lits, "adjacent")
}

// literal sequences: what one literal holds must not change how the printer treats a later one. A first literal with
// text that looks like the start of a comment, a string or a backtick string (`//`, `/*`, quotes, backticks, `${`),
// optionally a comment line with such text, then a second literal - mostly a backtick string over several lines with
// blanks at line ends - and the values of both as the completion value.
var seqFirstPieces = []string{"//", "http://x/y", "/*", "*/", "'", `\"`, "`", `\\`, " ", "a", "${", "}", "//'", "/", "://", "\\\\", `\'`, "``", "#", "it's", "<-", "!--"}
var seqBetween = []string{"", "", "", "// it's a \"note\n", "x = 1 // `tick\n", "// \"\n", "//\n", "x = '//' // '\n", "y = \"`\"\n",
	// statements that begin with a backtick, a parenthesis or a bracket: printed without semicolons, every one of them makes
	// the printer put a semicolon back behind the statement before it (several restorations in one output)
	";`t`;\n", ";(w);\n", ";[w];\n", ";`a\n  b  \n`;\n(w);\n", ";-w;\n`;`;\n"}

func runC07Sequences(t *fw.T) {
	r := t.Rand()
	tpl := []string{"a", "  \n", " \n", "\t\n", "\n", "b  ", "//", "'", "\"", "  ", "\n  c", "\\`", "x \n y", "/*", " "}
	var lits []litCase
	for i := 0; i < 24; i++ {
		var sb strings.Builder
		q := []string{`"`, `'`, "`"}[[]int{0, 0, 0, 1, 1, 2}[r.IntN(6)]]
		for k, n := 0, 1+r.IntN(4); k < n; k++ {
			p := seqFirstPieces[r.IntN(len(seqFirstPieces))]
			switch { // a piece that holds the delimiter bare is escaped piece by piece
			case q == "'" && p != `\'`:
				p = strings.ReplaceAll(p, "'", `\'`)
			case q == "`":
				p = strings.ReplaceAll(strings.ReplaceAll(p, "`", "\\`"), "${", "$ {")
			}
			sb.WriteString(p)
		}
		first := q + sb.String() + q
		sameLine := false
		if q != "`" && r.IntN(5) == 0 {
			// a quoted string continued over a line end (backslash + line break); the second literal then follows on the line
			// on which the first one ends
			k := r.IntN(len(sb.String()) + 1)
			first = q + sb.String()[:k] + "\\\n" + sb.String()[k:] + q
			if strings.HasSuffix(sb.String()[:k], "\\") && !strings.HasSuffix(sb.String()[:k], "\\\\") {
				first = q + sb.String() + "\\\n" + q // do not split an escape
			}
			sameLine = r.IntN(2) == 0
		}
		var second string
		if r.IntN(4) > 0 {
			sb.Reset()
			for k, n := 0, 1+r.IntN(6); k < n; k++ {
				sb.WriteString(tpl[r.IntN(len(tpl))])
			}
			second = "`" + sb.String() + "`"
		} else {
			q2 := []byte{'"', '\''}[r.IntN(2)]
			second = string(q2) + gen.RandStrBody(r, q2) + string(q2)
		}
		between := seqBetween[r.IntN(len(seqBetween))]
		if strings.HasPrefix(between, ";") {
			between = ";\n" + between[1:] // the source writes its semicolons; the printer that omits them has to put these back
		} else {
			between = "\n" + between
		}
		if sameLine {
			between = "; "
		}
		prog := "w = " + first + between + "v = " + second + ";\n[w, v, w + 1, v + 1].join(\"\\u0001\")"
		cat := "sequence/two literals"
		if i%2 == 1 {
			cat = "sequence-nosemi/two literals"
		}
		lits = append(lits, litCase{prog, cat})
		t.Distinct(prog)
	}
	checkLiterals(t, lits, "sequence")
	if t.WantSample() {
		t.Sample(map[string]any{"stratum": "literal-sequences", "program": lits[0].text})
	}
}

// large programs: hundreds of literal statements (40 to 130 KB of compact output on one line); every literal still
// denotes its value when the output is that long. Literals hold statement-like text (`;`, braces, quotes, comment
// starts) so that nothing that scans the output for statement ends can take a literal's content for code.
func runC07Large(t *fw.T) {
	r := t.Rand()
	var sb strings.Builder
	sb.WriteString("v = \"\"\n")
	target := 40000 + r.IntN(90000)
	tplP := []string{"a;", "; ", "b = 1;\n", "}\n", "  \n", "x", "'", "\"", "//;", "{", "\\`;", "/*", "let c;"}
	strP := []string{"a;", ";", "b = 1; ", "}", "\\n", "x", `\"`, `\'`, "//;", "{", "`", "/*", "\\\\", "let c;", ";;"}
	n := 0
	for sb.Len() < target {
		var lit strings.Builder
		k := 1 + r.IntN(8)
		if r.IntN(3) == 0 {
			lit.WriteString("`")
			for i := 0; i < k; i++ {
				lit.WriteString(tplP[r.IntN(len(tplP))])
			}
			lit.WriteString("`")
		} else {
			lit.WriteString(`"`)
			for i := 0; i < k; i++ {
				lit.WriteString(strP[r.IntN(len(strP))])
			}
			lit.WriteString(`"`)
		}
		fmt.Fprintf(&sb, "v = v + %s + %d\n", lit.String(), n)
		n++
	}
	sb.WriteString("v")
	t.Count("literals_in_large_programs", n)
	t.Feature("size of large literal programs (x10 KB)", fmt.Sprint(sb.Len()/10240*10))
	checkLiterals(t, []litCase{{sb.String(), "sequence/large program"}}, "large")
	t.Distinct(sb.String())
}

func runC07Contexts(t *fw.T) {
	r := t.Rand()
	var base []litCase
	for i := 0; i < 6; i++ {
		base = append(base, litCase{numberLikeStrings[r.IntN(len(numberLikeStrings))], "number-like or special string"})
	}
	for i := 0; i < 4; i++ {
		q := []byte{'"', '\''}[r.IntN(2)]
		base = append(base, litCase{string(q) + gen.RandStrBody(r, q) + string(q), "random string"})
	}
	for i := 0; i < 6; i++ {
		base = append(base, litCase{gen.RandNum(r), "number"})
	}
	var lits []litCase
	for _, b := range base {
		for _, c := range litContexts {
			lits = append(lits, litCase{b.text, c.name + "/" + b.cat})
		}
		t.Distinct("ctx " + b.text)
	}
	checkLiterals(t, lits, "context")
}

func digits(r *rand.Rand, n int, set string) string {
	b := make([]byte, n)
	for i := range b {
		b[i] = set[r.IntN(len(set))]
	}
	return string(b)
}

func runC07Numbers(t *fw.T) {
	r := t.Rand()
	var lits []litCase
	add := func(cat, s string) { lits = append(lits, litCase{s, "number/" + cat}); t.Distinct(s) }
	dec := func(max int) string {
		n := 1 + r.IntN(max)
		s := digits(r, n, "0123456789")
		s = strings.TrimLeft(s, "0")
		if s == "" {
			s = "0"
		}
		return s
	}
	if t.Index == 0 {
		for _, s := range []string{"0", "1", "9007199254740991", "9007199254740992", "9223372036854775807", "0.1", "0.30000000000000004", "1e308", "1e309", "1.7976931348623157e308", "5e-324", "4e-324", "1e-400", "0e0", "0.0", "1E+0", "1e-0",
			"0x0", "0xFF", "0XfF", "0x1fffffffffffff", "0x7fffffffffffffff", "0b0", "0b1", "0B101", "0b" + strings.Repeat("1", 53), "0o0", "0o7", "0O17", "0o777777777777777777", "123456789012345678", "0.000001", "100000000000000000000"} {
			add("boundary", s)
		}
	}
	for i := 0; i < 40; i++ {
		add("decimal", dec(15))
		add("fraction", dec(8)+"."+digits(r, 1+r.IntN(10), "0123456789"))
		add("exponent", dec(6)+fw.Pick(r, []string{"e", "E"})+fw.Pick(r, []string{"", "+", "-"})+digits(r, 1+r.IntN(2), "0123456789"))
		add("fraction+exponent", dec(4)+"."+digits(r, 1+r.IntN(6), "0123456789")+fw.Pick(r, []string{"e", "E"})+fw.Pick(r, []string{"", "+", "-"})+digits(r, 1+r.IntN(3), "0123456789"))
		add("hex", fw.Pick(r, []string{"0x", "0X"})+digits(r, 1+r.IntN(13), "0123456789abcdefABCDEF"))
		add("binary", fw.Pick(r, []string{"0b", "0B"})+digits(r, 1+r.IntN(52), "01"))
		add("octal", fw.Pick(r, []string{"0o", "0O"})+digits(r, 1+r.IntN(17), "01234567"))
		// spellings with leading zeros: legacy octal (010 is 8) and octal-like decimals (089 is 89) of sloppy-mode
		// ECMAScript; whatever of them xjs accepts must keep its value
		add("leading-zeros", "0"+digits(r, 1+r.IntN(6), "01234567"))
		add("leading-zeros", "0"+digits(r, 1+r.IntN(4), "0123456789"))
		add("leading-zeros", "00"+digits(r, r.IntN(3), "01234567")+fw.Pick(r, []string{"", ".5", "e1"}))
	}
	checkLiterals(t, lits, "number")
}

func init() {
	fw.Register(&fw.Property{
		ID: "C07", Level: "translation_validation",
		Rule: "each literal text t is compiled inside `v = t` (compact and pretty) by the real lexer/parser/printer; node/V8 evaluates t and both emitted expressions; string values are compared as UTF-16 code-unit sequences, numbers as IEEE-754 bit patterns. Literals xjs rejects or V8 rejects in the source are outside the premise (counted). A literal-sequences stratum compiles programs of two literals (the first holding comment / string / backtick look-alikes, an optional comment line between them, the second mostly a multi-line backtick string with blanks at line ends) and compares the values of both. A literal-positions stratum places string and number literals as object keys, computed keys, array elements, call arguments and operands (the completion value is the value that position sees; for keys the property name). Exhaustive: every \\xHH, every \\uHHHH, every ASCII byte raw and after a backslash (both quote styles, alone and embedded); \\u{...} at all boundaries + 4096 sampled code points in 1-6 digit forms; line continuations, legacy octal, surrogates; random concatenations; backtick strings; all numeric shapes. programs = literals judged; distinct = distinct literal texts.",
		Assumptions: []string{
			"V8 (node 20) is the reference semantics of literal values",
			"source texts are valid UTF-8",
		},
		Teardown: closeEngine,
		Strata: []*fw.Stratum{
			{Name: "hex-escapes", Quick: 1, Thorough: 1, Exhaustive: true, Run: runC07Hex},
			{Name: "unicode-escapes-4", Quick: 65536 / litChunk, Thorough: 65536 / litChunk, Exhaustive: true, Run: runC07U4},
			{Name: "unicode-escapes-brace", Quick: 33, Thorough: 257, Run: runC07UBrace},
			{Name: "ascii-bytes", Quick: 1, Thorough: 1, Exhaustive: true, Run: runC07ASCII},
			{Name: "misc-escapes", Quick: 1, Thorough: 1, Exhaustive: true, Run: runC07Misc},
			{Name: "random-strings", Quick: 5000, Thorough: 30000, Run: runC07Random},
			{Name: "backtick-strings", Quick: 1500, Thorough: 10000, Run: runC07Backticks},
			{Name: "numbers", Quick: 600, Thorough: 4000, Run: runC07Numbers},
			{Name: "literal-positions", Quick: 1000, Thorough: 6000, Run: runC07Contexts},
			{Name: "adjacent-literals", Quick: 800, Thorough: 5000, Run: runC07Adjacent},
			{Name: "literal-sequences", Quick: 800, Thorough: 5000, Run: runC07Sequences},
			{Name: "large-programs", Quick: 48, Thorough: 400, Run: runC07Large},
		},
	})
}
