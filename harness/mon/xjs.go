package mon

import (
	"fmt"
	"github.com/xjslang/xjs/token"

	"github.com/xjslang/xjs/ast"
	"github.com/xjslang/xjs/compiler"
	"github.com/xjslang/xjs/lexer"
	"github.com/xjslang/xjs/parser"
)

// Mode is a parser mode combination.
type Mode struct{ Tolerant, Smart bool }

func (m Mode) String() string {
	s := "strict"
	if m.Tolerant {
		s = "tolerant"
	}
	if m.Smart {
		s += "+smart"
	}
	return s
}

var AllModes = []Mode{{false, false}, {true, false}, {false, true}, {true, true}}

func newBuilder(m Mode) *parser.Builder {
	b := parser.NewBuilder(lexer.NewBuilder())
	if m.Tolerant {
		b.WithTolerantMode(true)
	}
	if m.Smart {
		b.WithSmartSemicolon(true)
	}
	return b
}

type ParseOut struct {
	Prog   *ast.Program
	Err    error
	Errors []parser.ParserError
	P      *parser.Parser
}

func parse(src string, m Mode) ParseOut {
	p := newBuilder(m).Build(src)
	prog, err := p.ParseProgram()
	return ParseOut{Prog: prog, Err: err, Errors: p.Errors(), P: p}
}

// parsePolled is parse with the error list read out of the usual order: before ParseProgram (and, with during, from a
// pass-through statement interceptor while the parse is under way). Errors() is a query; asking early changes nothing.
func parsePolled(src string, m Mode, during bool) ParseOut {
	b := newBuilder(m)
	if during {
		b.UseStatementInterceptor(func(p *parser.Parser, next func() ast.Statement) ast.Statement {
			_ = len(p.Errors())
			st := next()
			_ = len(p.Errors())
			return st
		})
	}
	p := b.Build(src)
	_ = len(p.Errors())
	prog, err := p.ParseProgram()
	return ParseOut{Prog: prog, Err: err, Errors: p.Errors(), P: p}
}

// recycledBuilders: long-lived default-mode parser builders with a history (per worker process, single goroutine): each
// was first configured with smart semicolons and tolerant mode, built and ran a parser, and was then switched back to
// the default modes in one of three ways. From then on it builds one parser per text. A builder is a value users keep
// and reconfigure; a parser built from it now is a default-mode parser like any other.
var recycledBuilders [3]*parser.Builder

func recycledBuilder(v int) *parser.Builder {
	v %= len(recycledBuilders)
	if recycledBuilders[v] == nil {
		b := parser.NewBuilder(lexer.NewBuilder()).WithSmartSemicolon(true).WithTolerantMode(true)
		b.Build("a\n(b)\n{").ParseProgram()
		switch v {
		case 0:
			b.WithSmartSemicolon(false)
			b.WithTolerantMode(false)
		case 1:
			b.WithTolerantMode(false)
			b.Build("x").ParseProgram()
			b.WithSmartSemicolon(false)
		default:
			b.WithTolerantMode(false).WithSmartSemicolon(false)
		}
		recycledBuilders[v] = b
	}
	return recycledBuilders[v]
}

// parseRecycled parses src in default mode with a parser built from a long-lived, reconfigured builder.
func parseRecycled(src string, v int) ParseOut {
	p := recycledBuilder(v).Build(src)
	prog, err := p.ParseProgram()
	return ParseOut{Prog: prog, Err: err, Errors: p.Errors(), P: p}
}

// parseObserved parses src in default mode on a builder that carries observing plugins: a pass-through token, statement
// and expression interceptor, and an expression interceptor that lets the default path parse the expression and then
// asks the parser to continue it (`e := next(); return p.ParseRemainingExpression(e)`: nothing is left to continue, so
// the tree is the default tree). What the text means does not depend on who watches the parse.
func parseObserved(src string, v int) ParseOut {
	lb := lexer.NewBuilder()
	lb.UseTokenInterceptor(func(l *lexer.Lexer, next func() token.Token) token.Token { return next() })
	pb := parser.NewBuilder(lb)
	pb.UseStatementInterceptor(func(p *parser.Parser, next func() ast.Statement) ast.Statement { return next() })
	n := 0
	pb.UseExpressionInterceptor(func(p *parser.Parser, next func() ast.Expression) ast.Expression {
		n++
		switch (n + v) % 3 {
		case 0:
			return next()
		case 1:
			e := next()
			return p.ParseRemainingExpression(e)
		}
		return p.ParseRemainingExpression(p.ParsePrefixExpression())
	})
	p := pb.Build(src)
	prog, err := p.ParseProgram()
	return ParseOut{Prog: prog, Err: err, Errors: p.Errors(), P: p}
}

// parseHeadByHand parses the first statement through ParseStatement / NextToken and the rest through ParseProgram on
// the same parser; the error list is the parser's, read at the end.
func parseHeadByHand(src string) ParseOut {
	p := newBuilder(Mode{}).Build(src)
	prog := &ast.Program{Statements: []ast.Statement{}}
	if p.CurrentToken.Type != token.EOF {
		if st := p.ParseStatement(); !walkNil(st) {
			prog.Statements = append(prog.Statements, st)
		}
		p.NextToken()
	}
	rest, err := p.ParseProgram()
	if rest != nil {
		prog.Statements = append(prog.Statements, rest.Statements...)
		prog.EOF = rest.EOF
	}
	if errs := p.Errors(); err == nil && len(errs) > 0 {
		err = fmt.Errorf("parsing failed with %d errors: %v", len(errs), errs[0])
	}
	return ParseOut{Prog: prog, Err: err, Errors: p.Errors(), P: p}
}

// parseByHand drives the statement loop through the public API (ParseStatement / NextToken), the way a REPL or a tool
// that wants the statements one at a time does, and reads Errors() afterwards. Same steps as ParseProgram.
func parseByHand(src string, m Mode) ParseOut {
	p := newBuilder(m).Build(src)
	prog := &ast.Program{Statements: []ast.Statement{}}
	for p.CurrentToken.Type != token.EOF {
		if st := p.ParseStatement(); !walkNil(st) {
			prog.Statements = append(prog.Statements, st)
		}
		p.NextToken()
	}
	prog.EOF = p.CurrentToken
	var err error
	if errs := p.Errors(); len(errs) > 0 {
		err = fmt.Errorf("parsing failed with %d errors: %v", len(errs), errs[0])
	}
	return ParseOut{Prog: prog, Err: err, Errors: p.Errors(), P: p}
}

// Cfg is a compiler configuration.
type Cfg struct {
	Pretty bool
	Tabs   bool
	Spaces int // used when !Tabs
	NoSemi bool
	Map    bool
}

func (c Cfg) String() string {
	if !c.Pretty {
		if c.Map {
			return "compact+map"
		}
		return "compact"
	}
	s := "pretty/"
	if c.Tabs {
		s += "tab"
	} else {
		s += fmt.Sprintf("%dsp", c.Spaces)
	}
	if c.NoSemi {
		s += "/nosemi"
	} else {
		s += "/semi"
	}
	if c.Map {
		s += "+map"
	}
	return s
}

func (c Cfg) compiler() *compiler.Compiler {
	k := compiler.New()
	// the order in which the options are requested is immaterial: for odd indent widths the source map is requested
	// first, and the semicolon option is given before the indent option
	mapFirst := c.Map && c.Pretty && c.Spaces%2 == 1
	if mapFirst {
		k = k.WithSourceMap()
	}
	if c.Pretty && mapFirst {
		var o []compiler.PrettyPrintOption
		o = append(o, compiler.WithSemi(!c.NoSemi))
		if c.Tabs {
			o = append(o, compiler.WithTabs())
		} else {
			o = append(o, compiler.WithSpaces(c.Spaces))
		}
		return k.WithPrettyPrint(o...)
	}
	if c.Pretty {
		var o []compiler.PrettyPrintOption
		if c.Tabs {
			o = append(o, compiler.WithTabs())
		} else {
			o = append(o, compiler.WithSpaces(c.Spaces))
		}
		o = append(o, compiler.WithSemi(!c.NoSemi))
		k = k.WithPrettyPrint(o...)
	}
	if c.Map {
		k = k.WithSourceMap()
	}
	return k
}

func (c Cfg) Compile(p *ast.Program) compiler.CompileResult { return c.compiler().Compile(p) }

// reusedCompilers: one long-lived Compiler value per configuration and worker process (the monitors that use it run on
// one goroutine). A Compiler is a value a user keeps and calls Compile on for one program after the other; whatever it
// remembers from an earlier program shows in a later one. Violations found through it need the worker's history to
// replay (the framework re-runs the plan prefix).
var reusedCompilers = map[Cfg]*compiler.Compiler{}

// CompileReused compiles with this process's long-lived compiler of the configuration.
func (c Cfg) CompileReused(p *ast.Program) compiler.CompileResult {
	k := reusedCompilers[c]
	if k == nil {
		k = c.compiler()
		reusedCompilers[c] = k
	}
	return k.Compile(p)
}

// AllCodeCfgs: compact + pretty × {tab, 0..8 spaces} × {semi, nosemi} = 21 code configurations.
func AllCodeCfgs() []Cfg {
	out := []Cfg{{}}
	for _, ns := range []bool{false, true} {
		out = append(out, Cfg{Pretty: true, Tabs: true, NoSemi: ns})
		for n := 0; n <= 8; n++ {
			out = append(out, Cfg{Pretty: true, Spaces: n, NoSemi: ns})
		}
	}
	return out
}

var (
	CfgCompact    = Cfg{}
	CfgPretty     = Cfg{Pretty: true, Spaces: 2}
	CfgPrettyTabN = Cfg{Pretty: true, Tabs: true, NoSemi: true}
)
