//go:build !verif

package mon

import (
	"github.com/xjslang/xjs/parser"
	"github.com/xjslang/xjs/token"
)

const HooksAvailable = false

func hookStack(p *parser.Parser) ([]parser.ContextType, bool) { return nil, false }
func hookExprPrec(p *parser.Parser) (int, bool)               { return 0, false }
func hookPrecs(p *parser.Parser) (map[token.Type]int, bool)   { return nil, false }
func hookBuiltinPrecs() (map[token.Type]int, bool)            { return nil, false }
