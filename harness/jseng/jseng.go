// Package jseng drives the reference JavaScript engine process (node/V8 with
// the bundled acorn parser): the deciding engine for execution, literal values
// and "is this text ECMAScript / how does ECMAScript parse it".
package jseng

import (
	"bufio"
	"encoding/json"
	"errors"
	"fmt"
	"io"
	"os"
	"os/exec"
	"sync"
	"time"
)

const EnginePath = "/verif/node/engine.js"

type Engine struct {
	mu     sync.Mutex
	cmd    *exec.Cmd
	in     io.WriteCloser
	out    *bufio.Reader
	Acorn  bool
	Dead   bool
	Starts int
}

type RunResult struct {
	Out        []string `json:"out"`
	Completion string   `json:"completion"`
	Msg        string   `json:"msg,omitempty"`
}

type ParseResult struct {
	S       string `json:"s"`
	Err     string `json:"err"`
	V8      string `json:"v8"`
	NoAcorn bool   `json:"noacorn"`
}

var ErrUnavailable = errors.New("node engine unavailable")

func nodePath() string {
	for _, p := range []string{"/usr/bin/node", "/usr/local/bin/node"} {
		if _, err := os.Stat(p); err == nil {
			return p
		}
	}
	if p, err := exec.LookPath("node"); err == nil {
		return p
	}
	return ""
}

func (e *Engine) start() error {
	np := nodePath()
	if np == "" {
		return ErrUnavailable
	}
	cmd := exec.Command(np, "--expose-internals", "--no-warnings", "--stack-size=2000", EnginePath)
	in, err := cmd.StdinPipe()
	if err != nil {
		return err
	}
	out, err := cmd.StdoutPipe()
	if err != nil {
		return err
	}
	cmd.Stderr = io.Discard
	if err := cmd.Start(); err != nil {
		return err
	}
	e.cmd, e.in, e.out = cmd, in, bufio.NewReaderSize(out, 1<<20)
	e.Starts++
	var pong struct {
		OK    bool `json:"ok"`
		Acorn bool `json:"acorn"`
	}
	if err := e.call(map[string]any{"op": "ping"}, &pong, 20*time.Second); err != nil || !pong.OK {
		e.kill()
		return fmt.Errorf("engine ping failed: %v", err)
	}
	e.Acorn = pong.Acorn
	return nil
}

func (e *Engine) kill() {
	if e.cmd != nil && e.cmd.Process != nil {
		e.cmd.Process.Kill()
		e.cmd.Wait()
	}
	e.cmd = nil
}

// New starts an engine process.
func New() (*Engine, error) {
	e := &Engine{}
	if err := e.start(); err != nil {
		e.Dead = true
		return e, err
	}
	return e, nil
}

func (e *Engine) Close() {
	e.mu.Lock()
	defer e.mu.Unlock()
	if e.in != nil {
		e.in.Close()
	}
	e.kill()
}

func (e *Engine) call(req any, resp any, timeout time.Duration) error {
	b, err := json.Marshal(req)
	if err != nil {
		return err
	}
	b = append(b, '\n')
	type rr struct {
		line []byte
		err  error
	}
	ch := make(chan rr, 1)
	go func() {
		// write and read concurrently: node's pipe writes are synchronous
		go func() { e.in.Write(b) }()
		line, err := e.out.ReadBytes('\n')
		ch <- rr{line, err}
	}()
	select {
	case r := <-ch:
		if r.err != nil {
			return r.err
		}
		return json.Unmarshal(r.line, resp)
	case <-time.After(timeout):
		return errors.New("engine timeout")
	}
}

// Call sends one request; on failure the engine is restarted once and the error returned
// (the caller treats the case as inconclusive).
func (e *Engine) Call(req any, resp any) error {
	e.mu.Lock()
	defer e.mu.Unlock()
	if e.Dead {
		return ErrUnavailable
	}
	if e.cmd == nil {
		if err := e.start(); err != nil {
			e.Dead = true
			return err
		}
	}
	err := e.call(req, resp, 120*time.Second)
	if err != nil {
		e.kill()
		if e.Starts > 50 {
			e.Dead = true
		}
	}
	return err
}

// Run executes programs, each in a fresh context.
func (e *Engine) Run(codes []string, timeoutMs int) ([]RunResult, error) {
	var resp struct {
		Results []RunResult `json:"results"`
	}
	if err := e.Call(map[string]any{"op": "runmany", "codes": codes, "timeout": timeoutMs}, &resp); err != nil {
		return nil, err
	}
	if len(resp.Results) != len(codes) {
		return nil, errors.New("engine: short reply")
	}
	return resp.Results, nil
}

// Parse parses texts with acorn (S-expression) and optionally V8 (syntax check only).
func (e *Engine) Parse(codes []string, v8 bool) ([]ParseResult, error) {
	var resp struct {
		Results []ParseResult `json:"results"`
	}
	if err := e.Call(map[string]any{"op": "parsemany", "codes": codes, "v8": v8}, &resp); err != nil {
		return nil, err
	}
	if len(resp.Results) != len(codes) {
		return nil, errors.New("engine: short reply")
	}
	return resp.Results, nil
}

// Lits evaluates literal source texts; values come back tagged ("s:<utf16 hex>", "n:<float64 hex>", "err:<name>").
func (e *Engine) Lits(items []string) ([]string, error) {
	var resp struct {
		Vals []string `json:"vals"`
	}
	if err := e.Call(map[string]any{"op": "lits", "items": items}, &resp); err != nil {
		return nil, err
	}
	if len(resp.Vals) != len(items) {
		return nil, errors.New("engine: short reply")
	}
	return resp.Vals, nil
}
