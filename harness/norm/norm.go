// Package norm turns xjs trees into the canonical S-expression form shared with
// the generated-tree model (gen.Node.S) and the acorn front end (node/parse.js).
package norm

import (
	"fmt"
	"reflect"
	"strings"
	"verif/jsstr"

	"github.com/xjslang/xjs/ast"
	"github.com/xjslang/xjs/token"
)

type opts struct {
	groups bool
	custom func(n ast.Node, sb *strings.Builder, rec func(ast.Node)) bool
}

// S is the canonical form without grouping nodes, comments and positions.
func S(n ast.Node) string {
	var sb strings.Builder
	(&opts{}).node(n, &sb)
	return sb.String()
}

// SPlus keeps explicit grouping nodes.
func SPlus(n ast.Node) string {
	var sb strings.Builder
	(&opts{groups: true}).node(n, &sb)
	return sb.String()
}

// SCustom lets the caller render plugin node types.
func SCustom(n ast.Node, custom func(n ast.Node, sb *strings.Builder, rec func(ast.Node)) bool) string {
	var sb strings.Builder
	(&opts{custom: custom}).node(n, &sb)
	return sb.String()
}

func isNil(n any) bool {
	if n == nil {
		return true
	}
	v := reflect.ValueOf(n)
	switch v.Kind() {
	case reflect.Ptr, reflect.Interface, reflect.Slice, reflect.Map, reflect.Func:
		return v.IsNil()
	}
	return false
}

func opText(op string, tt token.Type) string {
	if tt.String() != op {
		return op + "!type=" + tt.String()
	}
	return op
}

func (o *opts) node(n ast.Node, sb *strings.Builder) {
	w := func(parts ...string) {
		for _, p := range parts {
			sb.WriteString(p)
		}
	}
	if isNil(n) {
		w("_")
		return
	}
	rec := func(k ast.Node) { sb.WriteByte(' '); o.node(k, sb) }
	recE := func(k ast.Expression) {
		sb.WriteByte(' ')
		if isNil(k) {
			sb.WriteString("_")
			return
		}
		o.node(k, sb)
	}
	params := func(ps []*ast.Identifier) string {
		var names []string
		for _, p := range ps {
			if p == nil {
				names = append(names, "<nil>")
			} else {
				names = append(names, p.Value)
			}
		}
		return strings.Join(names, " ")
	}
	stmts := func(ss []ast.Statement) {
		for _, s := range ss {
			if isNil(s) {
				w(" <nil-statement>")
				continue
			}
			rec(s)
		}
	}
	name := func(id *ast.Identifier) string {
		if id == nil {
			return "<nil>"
		}
		return id.Value
	}
	if o.custom != nil && o.custom(n, sb, func(k ast.Node) { o.node(k, sb) }) {
		return
	}
	switch x := n.(type) {
	case *ast.Program:
		w("(program")
		stmts(x.Statements)
		w(")")
	case *ast.LetStatement:
		w("(let ", name(x.Name))
		if !isNil(x.Value) {
			rec(x.Value)
		}
		w(")")
	case *ast.LetExpression:
		w("(let ", name(x.Name))
		if !isNil(x.Value) {
			rec(x.Value)
		}
		w(")")
	case *ast.ReturnStatement:
		w("(return")
		if !isNil(x.ReturnValue) {
			rec(x.ReturnValue)
		}
		w(")")
	case *ast.ExpressionStatement:
		w("(expr")
		recE(x.Expression)
		w(")")
	case *ast.FunctionDeclaration:
		w("(func ", name(x.Name), " (", params(x.Parameters), ")")
		if x.Body == nil {
			w(" _")
		} else {
			rec(x.Body)
		}
		w(")")
	case *ast.BlockStatement:
		w("(block")
		stmts(x.Statements)
		w(")")
	case *ast.IfStatement:
		w("(if")
		recE(x.Condition)
		if isNil(x.ThenBranch) {
			w(" _")
		} else {
			rec(x.ThenBranch)
		}
		if !isNil(x.ElseBranch) {
			rec(x.ElseBranch)
		}
		w(")")
	case *ast.WhileStatement:
		w("(while")
		recE(x.Condition)
		if isNil(x.Body) {
			w(" _")
		} else {
			rec(x.Body)
		}
		w(")")
	case *ast.ForStatement:
		w("(for")
		recE(x.Init)
		recE(x.Condition)
		recE(x.Update)
		if isNil(x.Body) {
			w(" _")
		} else {
			rec(x.Body)
		}
		w(")")
	case *ast.Identifier:
		w("(id ", x.Value, ")")
	case *ast.IntegerLiteral:
		w("(num ", jsstr.NumMeaning(x.Token.Literal), ")") // by value, not spelling
	case *ast.FloatLiteral:
		w("(num ", jsstr.NumMeaning(x.Token.Literal), ")") // by value, not spelling
	case *ast.StringLiteral:
		w("(str ", jsstr.Meaning(x.Value), ")") // compared by meaning (UTF-16 code units), not by spelling
	case *ast.MultiStringLiteral:
		// the lexer decodes \` to a bare backtick; the raw form (what the generator and acorn report) escapes it
		w("(tpl ", jsstr.TplMeaning(strings.ReplaceAll(x.Value, "`", "\\`")), ")")
	case *ast.BooleanLiteral:
		if x.Value {
			w("(true)")
		} else {
			w("(false)")
		}
	case *ast.NullLiteral:
		w("(null)")
	case *ast.BinaryExpression:
		w("(bin ", opText(x.Operator, x.Token.Type))
		recE(x.Left)
		recE(x.Right)
		w(")")
	case *ast.UnaryExpression:
		w("(un ", opText(x.Operator, x.Token.Type))
		recE(x.Right)
		w(")")
	case *ast.PostfixExpression:
		w("(post ", opText(x.Operator, x.Token.Type))
		recE(x.Left)
		w(")")
	case *ast.GroupedExpression:
		if o.groups {
			w("(grp")
			recE(x.Expression)
			w(")")
		} else if isNil(x.Expression) {
			w("_")
		} else {
			o.node(x.Expression, sb)
		}
	case *ast.CallExpression:
		w("(call")
		recE(x.Function)
		for _, a := range x.Arguments {
			recE(a)
		}
		w(")")
	case *ast.MemberExpression:
		if x.Computed {
			w("(idx")
			recE(x.Object)
			recE(x.Property)
			w(")")
		} else {
			w("(dot")
			recE(x.Object)
			if id, ok := x.Property.(*ast.Identifier); ok && id != nil {
				w(" ", id.Value)
			} else {
				recE(x.Property)
			}
			w(")")
		}
	case *ast.AssignmentExpression:
		w("(asg ", opText("=", x.Token.Type))
		recE(x.Left)
		recE(x.Value)
		w(")")
	case *ast.CompoundAssignmentExpression:
		w("(asg ", opText(x.Operator+"=", x.Token.Type))
		recE(x.Left)
		recE(x.Value)
		w(")")
	case *ast.FunctionExpression:
		nm := "_"
		if x.Name != nil {
			nm = x.Name.Value
		}
		w("(fn ", nm, " (", params(x.Parameters), ")")
		if x.Body == nil {
			w(" _")
		} else {
			rec(x.Body)
		}
		w(")")
	case *ast.ArrayLiteral:
		w("(arr")
		for _, e := range x.Elements {
			recE(e)
		}
		w(")")
	case *ast.ObjectLiteral:
		w("(obj")
		for _, p := range x.Properties {
			w(" (prop")
			// a property name spelled like a keyword literal (`{true: 1}`, `{null: 0}`) is a name, whatever node the
			// parser uses to hold it (ESTree: Identifier)
			switch k := p.Key.(type) {
			case *ast.BooleanLiteral:
				if k != nil {
					w(" (id ", k.Token.Literal, ")")
				} else {
					recE(p.Key)
				}
			case *ast.NullLiteral:
				if k != nil {
					w(" (id null)")
				} else {
					recE(p.Key)
				}
			default:
				recE(p.Key)
			}
			recE(p.Value)
			w(")")
		}
		w(")")
	default:
		w(fmt.Sprintf("(unknown %T)", n))
	}
}
