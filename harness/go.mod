module verif

go 1.23.0

require (
	github.com/davecgh/go-spew v1.1.1
	github.com/dop251/goja v0.0.0-20250630131328-58d95d85e994
	github.com/go-sourcemap/sourcemap v2.1.3+incompatible
	github.com/xjslang/xjs v0.0.0
)

replace github.com/xjslang/xjs => /repo
