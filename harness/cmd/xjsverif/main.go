// Command xjsverif is the single binary behind every check in MANIFEST.json.
package main

import (
	"flag"
	"fmt"
	"os"
	"strconv"
	"strings"

	"verif/fw"
	"verif/mon"
)

func main() {
	if len(os.Args) < 2 {
		fmt.Fprintln(os.Stderr, "usage: xjsverif check <ID> <quick|thorough> | worker ... | replay <file> | list")
		os.Exit(2)
	}
	switch os.Args[1] {
	case "list":
		for _, id := range fw.IDs() {
			fmt.Println(id)
		}
	case "check":
		fs := flag.NewFlagSet("check", flag.ExitOnError)
		workers := fs.Int("workers", 0, "")
		self := fs.String("worker-exe", "", "")
		fs.Parse(os.Args[2:])
		a := fs.Args()
		if len(a) < 2 {
			fmt.Fprintln(os.Stderr, "check <ID> <tier>")
			os.Exit(2)
		}
		seed := int64(1)
		if s := os.Getenv("VERIF_SEED"); s != "" {
			if v, err := strconv.ParseInt(s, 10, 64); err == nil {
				seed = v
			}
		}
		os.Exit(fw.RunCheck(fw.CheckOpts{Prop: a[0], Tier: a[1], Seed: seed, Workers: *workers, Self: *self}))
	case "worker":
		fs := flag.NewFlagSet("worker", flag.ExitOnError)
		prop := fs.String("prop", "", "")
		tier := fs.String("tier", "quick", "")
		seed := fs.Int64("seed", 1, "")
		shard := fs.Int("shard", 0, "")
		of := fs.Int("of", 1, "")
		skip := fs.Int("skip", 0, "")
		journal := fs.String("journal", "", "")
		out := fs.String("out", "", "")
		only := fs.String("only", "", "")
		upto := fs.Int("upto", -1, "")
		fs.Parse(os.Args[2:])
		p := fw.Lookup(*prop)
		if p == nil {
			fmt.Fprintln(os.Stderr, "unknown property", *prop)
			os.Exit(2)
		}
		w := &fw.Worker{Prop: p, Tier: *tier, Seed: *seed, Shard: *shard, Of: *of}
		var o *fw.CaseRef
		if *only != "" {
			i := strings.LastIndex(*only, ":")
			n, _ := strconv.Atoi((*only)[i+1:])
			o = &fw.CaseRef{Stratum: (*only)[:i], Index: n}
		}
		fw.RunWorker(w, *skip, *upto, o, *journal, *out)
	case "job":
		fs := flag.NewFlagSet("job", flag.ExitOnError)
		seed := fs.Int64("seed", 1, "")
		idx := fs.Int("index", 0, "")
		fs.Parse(os.Args[2:])
		mon.RunSoloJob(*seed, *idx)
	case "c14shared":
		fs := flag.NewFlagSet("c14shared", flag.ExitOnError)
		seed := fs.Int64("seed", 1, "")
		idx := fs.Int("index", 0, "")
		fs.Parse(os.Args[2:])
		mon.RunSharedChild(*seed, *idx)
	case "replay":
		if len(os.Args) < 3 {
			os.Exit(2)
		}
		os.Exit(fw.RunReplay(os.Args[2]))
	default:
		fmt.Fprintln(os.Stderr, "unknown subcommand")
		os.Exit(2)
	}
}
