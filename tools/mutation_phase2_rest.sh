#!/bin/bash
# usage: tools/mutation_phase2.sh [-j N] <ids-file>   — runs the quick checks against mechanical mutants that pass the project's
# own suite (ids from tools/mutation_phase1.sh).  Per mutant the checks run in an order that puts the most relevant first and stop
# at the first one that reports a VIOLATION; a mutant no check reports is a SURVIVOR (to be triaged by hand: equivalent mutant or
# blind spot).  Output: $MUT_DIR/phase2.tsv  (id, verdict, killing check / first class, file, line, kind, change).
# /repo is never touched: scratch worktrees under $MUT_DIR, monitors built with -modfile against them.
export GOFLAGS=-mod=mod GOPROXY=off GOSUMDB=off GOTOOLCHAIN=local
J=2
while getopts "j:" o; do case $o in j) J=$OPTARG;; esac; done; shift $((OPTIND-1))
IDS="$1"
MUT_DIR=${MUT_DIR:-/tmp/mutsweep}; mkdir -p $MUT_DIR
[ -x $MUT_DIR/mutgen ] || (cd /verif/tools/mutgen && go build -o $MUT_DIR/mutgen .) || exit 2
[ -d $MUT_DIR/base ] || { echo "run tools/mutation_phase1.sh first"; exit 2; }
# the monitors are built from a snapshot of the harness sources taken now: edits to /verif/harness during the sweep do not disturb it
rm -rf $MUT_DIR/harness_rest; cp -r /verif/harness $MUT_DIR/harness_rest
# MUT_CHECKS=n: only the n most relevant checks per mutant (default: all); MUT_SKIP=k: skip the k most relevant ones
# (follow-up pass for mutants that survived the first k); MUT_OUT: result file (default phase2.tsv)
MUT_SKIP=${MUT_SKIP:-0}; MUT_OUT=${MUT_OUT:-phase2.tsv}
MUT_CHECKS=${MUT_CHECKS:-16}
for k in $(seq 1 $J); do
  WT=$MUT_DIR/${MUT_SLOT:-p2slot}$k/repo
  git -C /repo worktree remove --force $WT 2>/dev/null; rm -rf $MUT_DIR/${MUT_SLOT:-p2slot}$k; mkdir -p $MUT_DIR/${MUT_SLOT:-p2slot}$k
  git -C /repo worktree add -q --detach $WT $(git -C $MUT_DIR/base rev-parse HEAD) || exit 2
done
order_for() { # relevance order by package of the mutated file
  case "$1" in
    # C14 (race-instrumented build, ~1 min) only where instance isolation is the likely victim
    sourcemap/*) echo "C09 C08 C01 C02 C03 C04 C05 C06 C07 C10 C11 C12 C13 C15 C16 C14";;
    compiler/*)  echo "C06 C03 C15 C08 C07 C01 C14 C11 C02 C04 C05 C12 C13 C16 C10 C09";;
    */builder.go) echo "C05 C04 C13 C12 C14 C02 C11 C16 C03 C06 C01 C15 C08 C07 C10 C09";;
    lexer/*)     echo "C10 C07 C02 C15 C08 C12 C04 C13 C01 C06 C03 C05 C11 C16 C09";;
    token/*)     echo "C10 C02 C05 C12 C01 C03 C04 C06 C07 C08 C11 C13 C15 C16 C09";;
    parser/*)    echo "C02 C12 C11 C13 C05 C04 C16 C03 C06 C01 C15 C08 C07 C10 C09";;
    *)           echo "C03 C06 C15 C08 C07 C01 C11 C02 C04 C05 C12 C13 C16 C10 C09";;
  esac
}
one() { # $1 = slot, $2 = id
  S=$MUT_DIR/${MUT_SLOT:-p2slot}$1; WT=$S/repo; OUT=$S/out; id=$2
  line=$(sed -n "$((id+1))p" $MUT_DIR/mutants.tsv | cut -f2-)
  file=$(echo "$line" | cut -f1)
  rm -rf $OUT; mkdir -p $OUT/.build
  $MUT_DIR/mutgen apply $MUT_DIR/base $id $WT >/dev/null
  sed "s#=> /repo#=> $WT#" $MUT_DIR/harness_rest/go.mod > $OUT/.build/go.mod; cp $MUT_DIR/harness_rest/go.sum $OUT/.build/go.sum
  verdict=SURVIVOR; by="-"
  tags=verif
  if ! (cd $MUT_DIR/harness_rest && go build -modfile=$OUT/.build/go.mod -tags verif -o $OUT/.build/xjsverif ./cmd/xjsverif) 2>/dev/null; then
    tags=verif_nohooks
    (cd $MUT_DIR/harness_rest && go build -modfile=$OUT/.build/go.mod -tags verif_nohooks -o $OUT/.build/xjsverif ./cmd/xjsverif) 2>/dev/null || verdict=harness-build-failed
  fi
  if [ $verdict = SURVIVOR ]; then
    for c in $(order_for "$file" | tr ' ' '\n' | tail -n +$((MUT_SKIP+1)) | head -n $MUT_CHECKS); do
      exe=$OUT/.build/xjsverif
      if [ $c = C14 ]; then
        (cd $MUT_DIR/harness_rest && go build -modfile=$OUT/.build/go.mod -tags $tags -race -o $OUT/.build/xjsverif-race ./cmd/xjsverif) 2>/dev/null || continue
        exe=$OUT/.build/xjsverif-race
      fi
      out=$(cd /verif && VERIF_OUT=$OUT VERIF_SEED=${VERIF_SEED:-1} timeout 1800 $OUT/.build/xjsverif check -worker-exe $exe $c quick 2>&1); rc=$?
      if echo "$out" | grep -q '^VIOLATION'; then
        verdict=killed; by="$c $(echo "$out" | grep -m1 'class=' | sed 's/^ *class=//' | cut -c1-100)"; break
      elif [ $rc != 0 ]; then
        by="$by [$c rc=$rc]"
      fi
    done
  fi
  git -C $WT checkout -q -- .
  rm -rf $OUT
  echo -e "$id\t$verdict\t$by\t$line"
}
export -f one order_for; export MUT_DIR MUT_CHECKS MUT_SKIP MUT_SLOT
cat "$IDS" | xargs -P $J -I{} bash -c 'for k in $(seq 1 '$J'); do exec 9>$MUT_DIR/${MUT_SLOT:-p2slot}$k.lock; if flock -n 9; then one $k {}; exit 0; fi; done; sleep 1; exec 9>$MUT_DIR/${MUT_SLOT:-p2slot}1.lock; flock 9; one 1 {}' >> $MUT_DIR/$MUT_OUT
for k in $(seq 1 $J); do git -C /repo worktree remove --force $MUT_DIR/${MUT_SLOT:-p2slot}$k/repo 2>/dev/null; done
cut -f2 $MUT_DIR/$MUT_OUT | sort | uniq -c
