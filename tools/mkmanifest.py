#!/usr/bin/env python3
# run with python3-vt (tooling venv) to get schema validation
"""Regenerates /verif/MANIFEST.json from the table below and validates it."""
import json, subprocess, sys, os
ROOT = "/verif"
CHECKS = {
 # id: (category, technique, text, note, design_ref)
 "C01": ("translation_validation", "runtime monitor / translation validation: generated executable programs; the source text and every compiled output are executed by node/V8 in fresh contexts and their recorded print sequences and completions compared",
         "Programs are terminating and deterministic by construction (bounded loops, no recursion, no text-dependent values). Each is rendered in 2-3 layouts, compiled under 6 (quick) / all 21 (thorough) code configurations, each also with a source map (code must be identical); V8 runs the source itself and each distinct output. 21 hand-written hazard programs run under all configurations on every run.",
         "Trusts V8 as reference semantics. Programs larger than ~400 tokens are rare; equal observable behaviour can hide a mis-parse whose value coincides (C02 checks tree shape directly).", "5/C01"),
 "C02": ("exploration", "runtime monitor: generated-tree oracle (ECMAScript-aware unparser with ground truth, each text confirmed by acorn) vs recorded xjs tree; exhaustive operator pairs/triples and statement-form matrix + random trees in many layouts",
         "Trees are generated, rendered by an unparser written from the ECMAScript grammar in 6-10 layouts (minimal/redundant parentheses, spacing, line breaks incl. restricted productions, comments, ;/ASI, CRLF); acorn must read each text as the generated tree (else the case is dropped as oracle-inconsistent); xjs's recorded tree must equal it. All 16^2 operator pairs x shapes x operand decorations, all 16^3 triples x 5 shapes and all ordered pairs of 29 statement forms are enumerated completely; random trees beyond.",
         "Trusts acorn 8 as ECMAScript reference on the subset and the S-expression normalisers (three front ends cross-checked on every case).", "5/C02"),
 "C03": ("exploration", "runtime monitor: assembled ast trees printed by the real printers, re-parsed by the real parser, shape and byte-for-byte fixed point compared; exhaustive to depth 3",
         "Trees are assembled from public ast node types (no grouping nodes), printed compact / pretty / pretty-tab-nosemi, re-parsed and compared by shape; the re-parsed tree is printed again and must reproduce the text. Every (parent, operand slot, child, operand slot, grandchild) combination over 25 operator kinds is enumerated; random trees to depth 10; parser-produced trees ride along.",
         "Oracle is the assembled tree itself; only xjs's own parser judges the printed text (ECMAScript validity of assembled trees is not required by the property).", "5/C03"),
 "C10": ("exploration", "runtime monitor: invariants of the recorded token stream against the input bytes (tiling, positions, maximal munch, newline flag, end-of-input stability) over byte strings, lexeme-fragment soups, all prefixes, rendered programs",
         "The lexer is run to end-of-input on every input; each token's Start/End/Literal/AfterNewline is checked against the bytes themselves with reference scans for string extents and well-formed numbers; rendered programs are additionally compared with the renderer's ground-truth token table. CPU-time watchdog decides non-termination.",
         "Line break = LF; lone CR/U+2028/U+2029 treated as ordinary bytes (documented). Go native fuzzing of the same monitor is an additional explorer in the thorough tier.", "5/C10"),
 "C11": ("exploration", "runtime monitor: invariants over ParseProgram's returned values in 4 modes (error iff list, no nil/typed-nil statements via reflective walk, error ranges = token ranges, mandatory children, 42 compiler configurations panic-free) over bytes, soups, token-level mutants, deep nesting",
         "Every input is parsed in strict/tolerant x smart on/off under panic capture and a CPU-time watchdog (stack overflow and hangs are caught by the parent from the worker journal); invariants are evaluated on what came back.",
         "Inputs <= 64 KiB, nesting <= 5000.", "5/C11"),
 "C12": ("fault_enumeration", "runtime monitor with fault enumeration: every single-token deletion, separator removal and truncation point of valid programs; acorn AND V8 decide 'no longer JavaScript'; recorded strict-mode errors and first error position checked",
         "For each sampled valid program all corruptions of the three kinds are enumerated (not sampled); those that both reference parsers reject must yield a strict-mode error whose first range does not precede the last intact token. Six documented leniencies of the parser (early errors etc.) are open findings keyed by root cause and re-run from stored witnesses on every run.",
         "Attribution of an accepted text to a known leniency is by feature of xjs's own tree (DESIGN 6.4): an unrelated missing check that only shows on texts with such a feature would be masked.", "5/C12"),
 "C04": ("exploration", "runtime monitor: recording interceptors (every invocation with current token, lexer state, hook: binding power before/after) + differential against the interceptor-free run + renderer ground truth for construct starts",
         "Random stacks of 0..8 token/statement/expression interceptors (interleaved installation, direct or via Install(plugin), pass-through or per-step re-entrant) over valid programs and malformed inputs; transparency (tokens, tree DeepEqual, errors, outputs), identical step sequences, installation order inside a step, current token = first token of the construct (every statement and full expression offered exactly once), lexer on the lexeme's first byte, binding power restored (hook).",
         "Ordering clauses judged on all-pass-through stacks; which sub-expressions get their own step is not prescribed (sound weaker reading).", "5/C04"),
 "C05": ("exploration", "runtime monitor: generic level-rule unparser as oracle for registered operators (exhaustive levels x neighbours x shapes) + sequential reference model of registration histories with twin-builder differential",
         "Every level 1..13 x every built-in neighbour on either side x both shapes, every pair of levels for two registered operators and registered prefix/postfix against all neighbours are enumerated; random mixed trees; 2000/20000 registration histories in lock-step with a model of ids and role sets, then real builder vs a twin that skipped refused calls (hook: binding-power tables equal). Level 1 is an open finding re-run on every run.",
         "Cross-role registration on the same token is not generated (not specified by the statement).", "5/C05"),
 "C06": ("exploration", "runtime monitor: differential/metamorphic over real pretty-printer executions (re-parse vs compact, format twice, option pairs normalised by a reference tokenizer) + acorn reading of every formatted output",
         "Programs in all layouts x pretty option sets (8 per program quick, all 20 thorough) + exhaustive statement-pair matrix with hazardous statement starts and brace-less bodies.",
         "Reference tokenizer decides which ';' are statement terminators; acorn is the ECMAScript reference.", "5/C06"),
 "C07": ("translation_validation", "runtime monitor / translation validation: literal texts compiled by the real lexer+printer, source and emitted literals evaluated by node/V8, values compared as UTF-16 code units / IEEE-754 bits; exhaustive escape strata",
         "Every \\xHH, every \\uHHHH, every ASCII byte raw and escaped, in both quote styles, alone and embedded, are enumerated completely; \\u{...} at all boundaries + 4096 sampled points; line continuations, legacy octal, surrogates, random concatenations, backtick strings, all numeric shapes; compact and pretty.",
         "Trusts V8 for literal values; source texts are valid UTF-8.", "5/C07"),
 "C08": ("exploration", "runtime monitor: emitted maps decoded by an independent Source-Map-v3 decoder; generated code re-tokenized by a reference tokenizer; each segment matched against the renderer's ground-truth token table (same lexeme, same occurrence)",
         "Programs in all layouts x {compact, pretty option sets}: every segment on a generated token start, pointing at the start of the same source lexeme (same occurrence), ordered, identifiers covered by named segments, code unchanged by requesting a map.",
         "ASCII programs (column unit not fixed by the property); own decoder cross-checked in C09.", "5/C08"),
 "C09": ("exploration", "runtime monitor: reference-model (sequential model of the builder) + independent Source-Map-v3 decoder over operation histories; exhaustive VLQ delta enumeration",
         "Every history is executed on the real sourcemap builder in lock-step with a sequential model; the emitted mappings are decoded by an own decoder and compared segment by segment. Deltas in [-2^20,2^20] are enumerated completely for source line/column (0..2^20 generated column, +-2^12 name index); random histories of up to 200 operations beyond. Held-on-what-was-observed, not a proof.",
         "Trusts the own decoder (cross-checked against go-sourcemap on a sample) and the reading of the v3 format in DESIGN 4.6; column unit = bytes.", "5/C09"),
}
CHECKS.update({
 "C13": ("exploration", "runtime monitor: differential between the four mode combinations of the real parser + generated-tree oracle for tolerant recovery and smart-semicolon cuts (acorn confirms the ';'-separated variant)",
         "(a) strict-accepted => tolerant tree DeepEqual, no errors; (b) fused statements / cut closing braces => tolerant keeps every statement; (c) no line-leading '(' '[' => smart == default incl. on malformed inputs; (d) line-separated statements starting with '(' '[' => smart yields the generated tree.",
         "'(' / '[' first on a line inside an expression is only run for totality (statement speaks of statements).", "5/C13"),
 "C14": ("exploration", "Go race detector (worker built with -race, GOMAXPROCS=16) over concurrent job rounds, shared-tree, shared-builder/compiler rounds + solo-process reference results + snapshots of package tables and trees",
         "Every job's result is compared with the result of the same job run alone in a fresh process; 16 goroutines run jobs with conflicting plugin/operator configurations concurrently, compile one shared tree, build from one builder; sequential histories reuse builders and recompile trees under all 42 configurations in random orders. Any DATA RACE report in xjs between independent instances or on a shared tree is a violation (deduplicated by the pair of xjs functions).",
         "The scheduler picks the interleavings; the race detector needs both accesses to happen in the run. Races while ONE builder/compiler value is used concurrently are recorded, judged only with a differing result.", "5/C14"),
 "C15": ("exploration", "runtime monitor: renderer ground truth of comment placement + reference tokenization of pretty/compact output + differential against the undecorated program",
         "Programs decorated at statement-list gaps with // comments of 11 hostile payload kinds and blank runs; every comment once, verbatim, in order, before the same token; blank separation kept; compact output comment-free and byte-identical to the comment-free program's.",
         "Statement-level comments only; text compared up to trailing blanks.", "5/C15"),
 "C16": ("exploration", "runtime monitor: recording interceptors (IsInFunction, CurrentContext, hook: context stack) vs the renderer's per-token nesting ground truth; final-state invariant on valid and malformed inputs in 4 modes",
         "Heavily nested programs (blocks, declarations, function expressions in arguments/literals/conditions, depth to 20) and 10^5 (quick) malformed inputs for the final-state clause.",
         "Inside a function body both FunctionContext and BlockContext are accepted as innermost context.", "5/C16"),
})
# additions of session 3 (after the seeded rounds): appended to the level text
EXTRA = {
 "C12": " A fourth of the corrupted texts is parsed by a strict builder that served tolerant parsers before, another fourth by a strict builder whose lexer builder is shared with a tolerant parser builder. Truncation at every token boundary and inside numeric literals / multi-character operators; eighths of the corrupted texts are parsed with smart semicolons on, under observing plugins, and with the statement loop driven by hand.",
 "C01": " Lexemes are random over the whole lexical grammar (escape families, line continuations, keyword-like and long identifiers, all numeric shapes, CR/trailing blanks in backtick strings); layouts include ';' on the next line. A control-flow-shapes stratum runs nested brace-less if/else chains (dangling else in every position), loops, blocks and early returns under all 16 assignments of four conditions. Every third group of cases is parsed by a long-lived reconfigured builder, every third under observing plugins; every second group compiles with long-lived compilers.",
 "C02": " Lexemes are random over the whole lexical grammar, strings compared by meaning (independent decoder, acorn cross-check); layouts include ';' on the next line; trees carry explicit redundant parentheses. A quarter of the texts each is parsed in tolerant mode, by a long-lived reconfigured builder, and under observing plugins (pass-through and continue-after-next interceptors); property names may be spelled like keyword literals.",
 "C03": " Every 4th random tree is additionally edited in place after it was printed (operator of a binary node replaced on the ast nodes) and must round-trip again. A literal-operands stratum (exhaustive) puts every kind of primary expression (number shapes, strings, single- and multi-line backtick strings, array/object literals, function expressions) into every operand slot of every operator kind; every second group of cases prints through long-lived Compiler values. Every fourth group of cases assembles operator nodes with tokens that carry the type only. Literal operands include every object-key form the parser produces (also a computed key).",
 "C04": " A third of the stacks is installed in two stages around a first Build (later parsers must see the later interceptors); by a per-step coin statement interceptors parse the statement themselves through the public Parse*Statement API and re-entrant expression interceptors use the specific public prefix functions. Further strata run all clauses on builders that carry registered prefix/infix/postfix operators (levels 2-13; step sequences compared with the text in which built-in operators of the same level stand in), on inputs nested 40-1000 deep, and on large programs. A builder-after-mode-setter stratum installs interceptors around a mode-setter call through the receiver and through the returned builder.",
 "C05": " Histories contain builds in mid-history, names that are keywords / operator spellings, built-in tokens in roles they lack (accepted once, refused on repeat), and a minimal use of every accepted operator afterwards. Every random mixed tree is also parsed through 1-3 expression interceptors that pass through or continue the expression themselves (ParseRemainingExpression). A third of the random infix operators are words issued through the keyword table or as contextual keywords (look-ahead re-typed by an interceptor); postfix operators hosted by built-in tokens without that role are enumerated; a quarter of the operator tokens is built by hand without positions. Every tree is also checked in statement positions and in multi-line layouts with operators leading the lines (default and smart mode); operator tokens may be obtained by re-typing the lexer's ILLEGAL tokens.",
 "C06": " Programs use random lexemes (escapes, line continuations, CR in backtick strings), ';' on the next line and tree-level redundant parentheses.",
 "C07": " Further strata: random code-point escapes in concatenations, literals in other positions (object key, computed key, array element, argument, operand), adjacent string literals under '+' whose texts could merge into a longer escape, CR / CRLF / U+2028 inside backtick strings. Every third group is lexed behind a plugin-consumed marker character; a sixth literal position ends a statement in front of a bracket statement and is printed without semicolons. A seventh literal position: parenthesised literal as receiver of a member call.",
 "C08": " Generated positions follow the Source Map line convention (LF, CRLF, lone CR); string lexemes are linked by meaning; programs use random lexemes incl. line continuations and CR in backtick strings. A quarter of the sources contains block-comment lines that a lexer plugin skips through Lexer.ReadChar; a sixth of the trees has every grouping node removed before compiling (printer-inserted parentheses).",
 "C09": " Advanced strings may end in a lone CR or be exactly \"\\r\"; only an LF directly continuing such a CR in the next advanced string is not generated. Advanced strings contain U+2028/2029, NEL, form feed, NUL and stray UTF-8 bytes (ordinary column advances). On every fourth history the map is read again after another builder was used.",
 "C10": " Inputs include BOM / hashbang / NUL starts, Unicode spaces and line terminators, form feed / vertical tab, numeric separators. Every 64th case is preceded by plugin activity on other builders in the same process (word-like token types, operators, interceptors).",
 "C11": " On every second case ParseProgram is called a second time on the same parser and the contract is checked again. Every 64th case is preceded by plugin activity on other builders; every second group compiles error-free trees with long-lived compilers.",
 "C13": " Half of the tolerant cases are repeated with a plugin statement keyword (`unless`, parsed through the public API into the `while` node) as the fused statement. Smart texts carry comments and blank lines; the builder is reconfigured by calling only the setter whose option changes. Further strata: plugins installed after the modes, registered operator ids 1000-1599 first on a line in smart mode, strict vs tolerant under a statement-stripping plugin, tolerant parses with the statement loop driven by hand.",
 "C14": " Job results include the ids and display forms of the registered token types; half of the builders in the sequential histories are configured in stages with parsers built in between. Compilers created from one option list the caller goes on using keep their configuration; handed-out results are re-read after later compilations. Parser builders of different modes share one lexer builder; source maps completed by the caller; a nested Build from a token interceptor during Build (progress canary on another goroutine); debug string of every single statement. A Compiler configured again prints like a fresh one; trivia of one tree edited in place leaves other trees alone.",
 "C15": " Programs carry tree-level redundant parentheses (statements beginning with '(('). A third of the sources has no trailing line break; one in six leaves blocks open and is parsed in tolerant mode; every second group of cases prints through long-lived Compiler values. Tool-annotation payloads; half of the programs are first printed with a source map requested.",
 "C16": " Half of the parses run a second parser of the same builder to completion inside an interceptor; half use interceptors that parse statements through the public API; a deep-nesting stratum goes to 128 (thorough 500) nested constructs. A third of the programs contain statements that an interceptor strips (returns nil); the outermost function may lie below 40-200 blocks; half of the malformed inputs are parsed with interceptors installed. Smart modes; the statement loop driven by hand; a plugin that pushes a context value of its own.",
}
REASONS_PENDING = "check under construction in this round (see DESIGN.md); not claimed yet"
def main():
    props = [json.loads(l)["id"] for l in open(f"{ROOT}/properties.jsonl")]
    hooks_commits = []
    try:
        out = subprocess.run(["git","-C","/repo","log","--format=%H %s"],capture_output=True,text=True).stdout
        for ln in out.splitlines():
            h, s = ln.split(" ",1)
            if s.startswith("verif:"):
                hooks_commits.append(h)
    except Exception:
        pass
    checks = []
    for pid in props:
        if pid not in CHECKS: continue
        cat, tech, text, note, ref = CHECKS[pid]
        checks.append({
            "property_id": pid,
            "quick_cmd": f"bin/check {pid} quick",
            "thorough_cmd": f"bin/check {pid} thorough",
            "evidence_file": f"/verif/evidence/{pid}.json",
            "replay_cmd_template": ".build/xjsverif replay {path}",
            "engine": "xjsverif",
            "level_claimed": {"category": cat, "text": text + EXTRA.get(pid, ""), "design_ref": ref},
            "level_note": note,
            "technique": tech,
        })
    na = [{"property_id": p, "reason": REASONS_PENDING} for p in props if p not in CHECKS]
    m = {
      "version": 1,
      "setup_cmd": "bin/setup",
      "hooks": {
        "guard": "verif",
        "enable": "go build -tags verif (harness module replaces github.com/xjslang/xjs => /repo); hook file: parser/verif_hooks.go",
        "baseline_off_cmd": "cd /repo && GOFLAGS=-mod=mod GOPROXY=off GOSUMDB=off go test -vet=off -count=1 ./...",
        "source_commits": hooks_commits,
        "add_only": True,
      },
      "engines": [
        {"name": "xjsverif", "path": "/verif/harness/cmd/xjsverif", "serves_properties": [c["property_id"] for c in checks],
         "kind_free_text": "Go runtime-monitoring harness: workload generators, recorders at xjs's public boundaries (+ verif-tagged accessors), deterministic oracles, parent/worker process model; node/V8+acorn and the Go race detector as external observers"},
      ],
      "checks": checks,
      "notes": "Every check is `bin/check <ID> <tier>`: rebuilds against /repo's working tree, runs sharded workers, re-checks violations in a fresh process, consults known_findings.json, rewrites evidence/<ID>.json. Exit 2 = machinery failure (never a VIOLATION line).",
      "not_applicable": na,
    }
    json.dump(m, open(f"{ROOT}/MANIFEST.json","w"), indent=1)
    try:
        import jsonschema
        jsonschema.validate(m, json.load(open("/root/.vp/MANIFEST.schema.json")))
        print("MANIFEST valid;", len(checks), "checks,", len(na), "not_applicable")
    except ImportError:
        print("jsonschema missing; wrote without validation")
if __name__ == "__main__":
    main()
