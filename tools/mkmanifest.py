#!/usr/bin/env python3
"""Regenerates /verif/MANIFEST.json from the table below and validates it."""
import json, subprocess, sys, os
ROOT = "/verif"
CHECKS = {
 # id: (category, technique, text, note, design_ref)
 "C02": ("exploration", "runtime monitor: generated-tree oracle (ECMAScript-aware unparser with ground truth, each text confirmed by acorn) vs recorded xjs tree; exhaustive operator pairs/triples and statement-form matrix + random trees in many layouts",
         "Trees are generated, rendered by an unparser written from the ECMAScript grammar in 6-10 layouts (minimal/redundant parentheses, spacing, line breaks incl. restricted productions, comments, ;/ASI, CRLF); acorn must read each text as the generated tree (else the case is dropped as oracle-inconsistent); xjs's recorded tree must equal it. All 16^2 operator pairs x shapes x operand decorations, all 16^3 triples x 5 shapes and all ordered pairs of 29 statement forms are enumerated completely; random trees beyond.",
         "Trusts acorn 8 as ECMAScript reference on the subset and the S-expression normalisers (three front ends cross-checked on every case).", "5/C02"),
 "C03": ("exploration", "runtime monitor: assembled ast trees printed by the real printers, re-parsed by the real parser, shape and byte-for-byte fixed point compared; exhaustive to depth 3",
         "Trees are assembled from public ast node types (no grouping nodes), printed compact / pretty / pretty-tab-nosemi, re-parsed and compared by shape; the re-parsed tree is printed again and must reproduce the text. Every (parent, operand slot, child, operand slot, grandchild) combination over 25 operator kinds is enumerated; random trees to depth 10; parser-produced trees ride along.",
         "Oracle is the assembled tree itself; only xjs's own parser judges the printed text (ECMAScript validity of assembled trees is not required by the property).", "5/C03"),
 "C10": ("exploration", "runtime monitor: invariants of the recorded token stream against the input bytes (tiling, positions, maximal munch, newline flag, end-of-input stability) over byte strings, lexeme-fragment soups, all prefixes, rendered programs",
         "The lexer is run to end-of-input on every input; each token's Start/End/Literal/AfterNewline is checked against the bytes themselves with reference scans for string extents and well-formed numbers; rendered programs are additionally compared with the renderer's ground-truth token table. CPU-time watchdog decides non-termination.",
         "Line break = LF; lone CR/U+2028/U+2029 treated as ordinary bytes (documented). Go native fuzzing of the same monitor is an additional explorer in the thorough tier.", "5/C10"),
 "C11": ("exploration", "runtime monitor: invariants over ParseProgram's returned values in 4 modes (error iff list, no nil/typed-nil statements via reflective walk, error ranges = token ranges, mandatory children, 42 compiler configurations panic-free) over bytes, soups, token-level mutants, deep nesting",
         "Every input is parsed in strict/tolerant x smart on/off under panic capture and a CPU-time watchdog (stack overflow and hangs are caught by the parent from the worker journal); invariants are evaluated on what came back.",
         "Inputs <= 64 KiB, nesting <= 5000.", "5/C11"),
 "C12": ("fault_enumeration", "runtime monitor with fault enumeration: every single-token deletion, separator removal and truncation point of valid programs; acorn AND V8 decide 'no longer JavaScript'; recorded strict-mode errors and first error position checked",
         "For each sampled valid program all corruptions of the three kinds are enumerated (not sampled); those that both reference parsers reject must yield a strict-mode error whose first range does not precede the last intact token. Six documented leniencies of the parser (early errors etc.) are open findings keyed by root cause and re-run from stored witnesses on every run.",
         "Attribution of an accepted text to a known leniency is by feature of xjs's own tree (DESIGN 6.4): an unrelated missing check that only shows on texts with such a feature would be masked.", "5/C12"),
 "C09": ("exploration", "runtime monitor: reference-model (sequential model of the builder) + independent Source-Map-v3 decoder over operation histories; exhaustive VLQ delta enumeration",
         "Every history is executed on the real sourcemap builder in lock-step with a sequential model; the emitted mappings are decoded by an own decoder and compared segment by segment. Deltas in [-2^20,2^20] are enumerated completely for source line/column (0..2^20 generated column, +-2^12 name index); random histories of up to 200 operations beyond. Held-on-what-was-observed, not a proof.",
         "Trusts the own decoder (cross-checked against go-sourcemap on a sample) and the reading of the v3 format in DESIGN 4.6; column unit = bytes.", "5/C09"),
}
REASONS_PENDING = "check under construction in this round (see DESIGN.md); not claimed yet"
def main():
    props = [json.loads(l)["id"] for l in open(f"{ROOT}/properties.jsonl")]
    hooks_commits = []
    try:
        out = subprocess.run(["git","-C","/repo","log","--format=%H %s"],capture_output=True,text=True).stdout
        for ln in out.splitlines():
            h, s = ln.split(" ",1)
            if s.startswith("verif:"):
                hooks_commits.append(h)
    except Exception:
        pass
    checks = []
    for pid in props:
        if pid not in CHECKS: continue
        cat, tech, text, note, ref = CHECKS[pid]
        checks.append({
            "property_id": pid,
            "quick_cmd": f"bin/check {pid} quick",
            "thorough_cmd": f"bin/check {pid} thorough",
            "evidence_file": f"/verif/evidence/{pid}.json",
            "replay_cmd_template": ".build/xjsverif replay {path}",
            "engine": "xjsverif",
            "level_claimed": {"category": cat, "text": text, "design_ref": ref},
            "level_note": note,
            "technique": tech,
        })
    na = [{"property_id": p, "reason": REASONS_PENDING} for p in props if p not in CHECKS]
    m = {
      "version": 1,
      "setup_cmd": "bin/setup",
      "hooks": {
        "guard": "verif",
        "enable": "go build -tags verif (harness module replaces github.com/xjslang/xjs => /repo); hook file: parser/verif_hooks.go",
        "baseline_off_cmd": "cd /repo && GOFLAGS=-mod=mod GOPROXY=off GOSUMDB=off go test -vet=off -count=1 ./...",
        "source_commits": hooks_commits,
        "add_only": True,
      },
      "engines": [
        {"name": "xjsverif", "path": "/verif/harness/cmd/xjsverif", "serves_properties": [c["property_id"] for c in checks],
         "kind_free_text": "Go runtime-monitoring harness: workload generators, recorders at xjs's public boundaries (+ verif-tagged accessors), deterministic oracles, parent/worker process model; node/V8+acorn and the Go race detector as external observers"},
      ],
      "checks": checks,
      "notes": "Every check is `bin/check <ID> <tier>`: rebuilds against /repo's working tree, runs sharded workers, re-checks violations in a fresh process, consults known_findings.json, rewrites evidence/<ID>.json. Exit 2 = machinery failure (never a VIOLATION line).",
      "not_applicable": na,
    }
    json.dump(m, open(f"{ROOT}/MANIFEST.json","w"), indent=1)
    try:
        import jsonschema
        jsonschema.validate(m, json.load(open("/root/.vp/MANIFEST.schema.json")))
        print("MANIFEST valid;", len(checks), "checks,", len(na), "not_applicable")
    except ImportError:
        print("jsonschema missing; wrote without validation")
if __name__ == "__main__":
    main()
