#!/usr/bin/env python3
"""Regenerates /verif/MANIFEST.json from the table below and validates it."""
import json, subprocess, sys, os
ROOT = "/verif"
CHECKS = {
 # id: (category, technique, text, note, design_ref)
 "C09": ("exploration", "runtime monitor: reference-model (sequential model of the builder) + independent Source-Map-v3 decoder over operation histories; exhaustive VLQ delta enumeration",
         "Every history is executed on the real sourcemap builder in lock-step with a sequential model; the emitted mappings are decoded by an own decoder and compared segment by segment. Deltas in [-2^20,2^20] are enumerated completely for source line/column (0..2^20 generated column, +-2^12 name index); random histories of up to 200 operations beyond. Held-on-what-was-observed, not a proof.",
         "Trusts the own decoder (cross-checked against go-sourcemap on a sample) and the reading of the v3 format in DESIGN 4.6; column unit = bytes.", "5/C09"),
}
REASONS_PENDING = "check under construction in this round (see DESIGN.md); not claimed yet"
def main():
    props = [json.loads(l)["id"] for l in open(f"{ROOT}/properties.jsonl")]
    hooks_commits = []
    try:
        out = subprocess.run(["git","-C","/repo","log","--format=%H %s"],capture_output=True,text=True).stdout
        for ln in out.splitlines():
            h, s = ln.split(" ",1)
            if s.startswith("verif:"):
                hooks_commits.append(h)
    except Exception:
        pass
    checks = []
    for pid in props:
        if pid not in CHECKS: continue
        cat, tech, text, note, ref = CHECKS[pid]
        checks.append({
            "property_id": pid,
            "quick_cmd": f"bin/check {pid} quick",
            "thorough_cmd": f"bin/check {pid} thorough",
            "evidence_file": f"/verif/evidence/{pid}.json",
            "replay_cmd_template": ".build/xjsverif replay {path}",
            "engine": "xjsverif",
            "level_claimed": {"category": cat, "text": text, "design_ref": ref},
            "level_note": note,
            "technique": tech,
        })
    na = [{"property_id": p, "reason": REASONS_PENDING} for p in props if p not in CHECKS]
    m = {
      "version": 1,
      "setup_cmd": "bin/setup",
      "hooks": {
        "guard": "verif",
        "enable": "go build -tags verif (harness module replaces github.com/xjslang/xjs => /repo); hook file: parser/verif_hooks.go",
        "baseline_off_cmd": "cd /repo && GOFLAGS=-mod=mod GOPROXY=off GOSUMDB=off go test -vet=off -count=1 ./...",
        "source_commits": hooks_commits,
        "add_only": True,
      },
      "engines": [
        {"name": "xjsverif", "path": "/verif/harness/cmd/xjsverif", "serves_properties": [c["property_id"] for c in checks],
         "kind_free_text": "Go runtime-monitoring harness: workload generators, recorders at xjs's public boundaries (+ verif-tagged accessors), deterministic oracles, parent/worker process model; node/V8+acorn and the Go race detector as external observers"},
      ],
      "checks": checks,
      "notes": "Every check is `bin/check <ID> <tier>`: rebuilds against /repo's working tree, runs sharded workers, re-checks violations in a fresh process, consults known_findings.json, rewrites evidence/<ID>.json. Exit 2 = machinery failure (never a VIOLATION line).",
      "not_applicable": na,
    }
    json.dump(m, open(f"{ROOT}/MANIFEST.json","w"), indent=1)
    try:
        import jsonschema
        jsonschema.validate(m, json.load(open("/root/.vp/MANIFEST.schema.json")))
        print("MANIFEST valid;", len(checks), "checks,", len(na), "not_applicable")
    except ImportError:
        print("jsonschema missing; wrote without validation")
if __name__ == "__main__":
    main()
