#!/usr/bin/env python3
"""Replaces the seeded-change table of DESIGN.md §7.3 (between the markers) with the output of tools/seed_table.py."""
import subprocess, re
p = '/verif/DESIGN.md'
s = open(p).read()
t = subprocess.run(['python3', '/verif/tools/seed_table.py'], capture_output=True, text=True).stdout
a = s.index('| change | what was changed')
b = s.index('C06-3 and C08-5 are the same idea')
s = s[:a] + t + '\n' + s[b:]
open(p, 'w').write(s)
print('table replaced,', t.count('\n'), 'lines')
