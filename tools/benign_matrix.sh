#!/bin/bash
# usage: tools/benign_matrix.sh [-j N]  — every benign change (/verif/benign/*.diff) against all sixteen quick checks;
# prints one line per (change, check); exit 1 if any check raised a VIOLATION (= false alarm) or failed to run.
J=2
while getopts "j:" o; do case $o in j) J=$OPTARG;; esac; done
[ -d "$PWD/harness/cmd/xjsverif" ] && export VERIF_HARNESS="$PWD/harness"
mkdir -p /tmp/bmx
ls /verif/benign/*.diff | xargs -P $J -I{} bash -c 'p={}; n=$(basename $p .diff); /verif/tools/mutant_matrix.sh $p b-$n > /tmp/bmx/$n.out 2>&1; cat /tmp/bmx/$n.out'
if cat /tmp/bmx/*.out | grep -v " rc=0 violations=0" | grep -q "rc="; then echo "FALSE ALARMS OR FAILURES (see above)"; exit 1; fi
echo "no alarm on any benign change"
