#!/bin/bash
# usage: tools/mutant_matrix.sh <patch.diff> <name> [ids...]  — checks a scratch copy of /repo HEAD with the patch applied,
# without touching /repo; prints one line per check. Safe to run several in parallel.
export GOFLAGS=-mod=mod GOPROXY=off GOSUMDB=off GOTOOLCHAIN=local
PATCH="$1"; NAME="$2"; shift 2
IDS="${@:-C01 C02 C03 C04 C05 C06 C07 C08 C09 C10 C11 C12 C13 C14 C15 C16}"
WT=/tmp/mm/$NAME/repo; OUTD=/tmp/mm/$NAME/out
rm -rf /tmp/mm/$NAME; mkdir -p /tmp/mm/$NAME $OUTD
git -C /repo worktree remove --force $WT 2>/dev/null
git -C /repo worktree add -q --detach $WT HEAD || exit 2
git -C $WT apply "$PATCH" || { echo "$NAME: patch does not apply"; git -C /repo worktree remove --force $WT; exit 2; }
for id in $IDS; do
  out=$(cd /verif && VERIF_REPO=$WT VERIF_OUT=$OUTD bin/check $id ${TIER:-quick} 2>&1); rc=$?
  nv=$(echo "$out" | grep -c '^VIOLATION')
  cls=$(echo "$out" | grep -m2 'class=' | sed 's/^ *class=//' | cut -c1-120 | tr '\n' ';')
  echo "$NAME $id rc=$rc violations=$nv $cls"
done
git -C /repo worktree remove --force $WT 2>/dev/null; rm -rf /tmp/mm/$NAME
