#!/bin/bash
# usage: tools/seed_eval.sh <Cxx> <i> [check ids...]      env: SEED_SRC (default /tmp/seeded), SEED_OFFSET (default 0), TIER
# 1. confirms the seeded change <SEED_SRC>/<Cxx>/patch<i>.diff independently in a scratch worktree
#    (applies, builds, vets, existing suite passes; demo fails with / passes without the change)
# 2. runs the given checks (default: the property's own) against a scratch worktree with the patch applied
#    (tools/mutant_matrix.sh; /repo itself is never touched, so several evaluations can run in parallel)
# 3. stores it under /verif/seeded/<Cxx>-<i+SEED_OFFSET>/ (patch.diff, demo_test.go, meta.json)
export GOFLAGS=-mod=mod GOPROXY=off GOSUMDB=off GOTOOLCHAIN=local
ID="$1"; I="$2"; shift 2
CHECKS="${@:-$ID}"
SRC=${SEED_SRC:-/tmp/seeded}/$ID
N=$(( I + ${SEED_OFFSET:-0} ))
PATCH=$SRC/patch$I.diff
DEMO=$SRC/demo${I}_test.go
[ -f "$PATCH" ] || { echo "no patch $PATCH"; exit 2; }
WT=/tmp/confirm-$ID-$N
git -C /repo worktree remove --force $WT 2>/dev/null; rm -rf $WT
git -C /repo worktree add -q --detach $WT HEAD || exit 2
applies=no; suite=no; demo_with=unknown; demo_without=unknown
if git -C $WT apply $PATCH 2>/tmp/apply.$ID.$N.err; then applies=yes; else cat /tmp/apply.$ID.$N.err; fi
if [ $applies = yes ]; then
  (cd $WT && go build ./... && go vet ./... >/dev/null 2>&1 && go test -vet=off -count=1 ./... >/tmp/suite.$ID.$N.log 2>&1) && suite=yes
  if [ -f "$DEMO" ]; then
    for variant in with without; do
      D=/tmp/demo-confirm-$ID-$N-$variant; rm -rf $D; mkdir -p $D
      target=$WT; [ $variant = without ] && target=/repo
      printf 'module demo\n\ngo 1.23.0\n\nrequire github.com/xjslang/xjs v0.0.0\n\nreplace github.com/xjslang/xjs => %s\n' $target > $D/go.mod
      cp /repo/go.sum $D/; cp $DEMO $D/demo_test.go
      if (cd $D && go test -count=1 ./... >$D/out.log 2>&1); then r=pass; else r=fail; fi
      [ $variant = with ] && demo_with=$r || demo_without=$r
      rm -rf $D
    done
  fi
fi
git -C /repo worktree remove --force $WT 2>/dev/null; rm -rf $WT
echo "CONFIRM $ID-$N applies=$applies suite_passes_with_change=$suite demo_with_change=$demo_with demo_without_change=$demo_without"
results=""
if [ $applies = yes ] && [ $suite = yes ]; then
  results=$(/verif/tools/mutant_matrix.sh $PATCH $ID-$N $CHECKS 2>&1)
  echo "$results" | cut -c1-420
fi
OUT=/verif/seeded/$ID-$N; mkdir -p $OUT
cp $PATCH $OUT/patch.diff; [ -f "$DEMO" ] && cp $DEMO $OUT/demo_test.go
RESULTS="$results" python3 - "$ID" "$N" "$applies" "$suite" "$demo_with" "$demo_without" "$CHECKS" "$I" "$SRC" "${TIER:-quick}" <<'PY'
import json,sys,re,os
ID,N,applies,suite,dw,dwo,checks,I,SRC,tier=sys.argv[1:11]
res=os.environ.get("RESULTS","")
det={}
for line in res.splitlines():
    m=re.match(r'\S+ (C\d+) rc=(\d+) violations=(\d+) ?(.*)',line)
    if m: det[m.group(1)]={"exit":int(m.group(2)),"violation_lines":int(m.group(3)),"first_classes":m.group(4)[:600]}
notes=""
p=f"{SRC}/NOTES.md"
if os.path.exists(p): notes=open(p).read()
meta={"property":ID,"change":int(N),"source":f"{SRC}/patch{I}.diff (sub-agent, given only the property text and a scratch worktree)",
 "confirmed":{"patch_applies":applies=="yes","existing_suite_passes_with_change":suite=="yes","demo_fails_with_change":dw=="fail","demo_passes_without_change":dwo=="pass"},
 "what_was_run":f"scratch worktree of /repo HEAD: git apply patch.diff; go build ./... && go vet ./... && go test -vet=off -count=1 ./...; demo_test.go in a scratch module replacing xjs with the patched worktree (must fail) and with /repo (must pass); then bin/check <id> {tier} for {checks} with VERIF_REPO pointing at a scratch worktree that has the patch applied (tools/mutant_matrix.sh)",
 "checks_"+tier:det,"author_notes":notes}
json.dump(meta,open(f"/verif/seeded/{ID}-{N}/meta.json","w"),indent=1)
PY
