#!/usr/bin/env python3
"""usage: tools/seed_note.py <Cxx-n> <round> <missed_at_first:0|1> <summary...>  — completes a stored change's meta.json"""
import json, sys
name, rnd, missed = sys.argv[1:4]; summary = ' '.join(sys.argv[4:])
p = f'/verif/seeded/{name}/meta.json'
m = json.load(open(p))
m['summary'] = summary; m['round'] = int(rnd); m['missed_by_own_check_at_first'] = missed == '1'
json.dump(m, open(p, 'w'), indent=1)
