#!/usr/bin/env python3
"""usage: tools/merge_cross.py <log>...  — merges lines `x-<change> <check> rc=<n> violations=<m> ...` of cross_matrix.sh logs
into the `cross_quick` field of /verif/seeded/<change>/meta.json."""
import sys, re, json, os
n = 0
for path in sys.argv[1:]:
    for line in open(path, encoding='utf-8', errors='ignore'):
        m = re.match(r'x-(C\d+-\d+) (C\d+) rc=(\d+) violations=(\d+) ?(.*)', line)
        if not m: continue
        ch, chk, rc, nv, cls = m.groups()
        p = f'/verif/seeded/{ch}/meta.json'
        if not os.path.exists(p) or rc == '2': continue
        meta = json.load(open(p))
        meta.setdefault('cross_quick', {})[chk] = {"exit": int(rc), "violation_lines": int(nv), "first_classes": cls[:300]}
        json.dump(meta, open(p, 'w'), indent=1, ensure_ascii=True)
        n += 1
print(n, 'results merged')
