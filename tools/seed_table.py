#!/usr/bin/env python3
"""Prints the markdown table of DESIGN.md §7 from /verif/seeded/*/meta.json (own quick check + cross results if recorded)."""
import json, glob, re, os
rows = []
def key(p):
    m = re.search(r'(C\d+)-(\d+)', p); return (m.group(1), int(m.group(2)))
for p in sorted(glob.glob('/verif/seeded/*/meta.json'), key=key):
    m = json.load(open(p))
    name = f"{m['property']}-{m['change']}"
    own = m.get('checks_quick', {}).get(m['property'])
    cross = m.get('cross_quick', {})
    def verdict(d):
        if d is None: return '–'
        if d['exit'] == 1 and d['violation_lines'] > 0:
            c = d.get('first_classes', '')
            mm = re.match(r'\s*(C\d+\|[^|]*\|[^ ;]*)', c)
            return 'caught' + (f" (`{mm.group(1).split('|',1)[1][:60]}`)" if mm else '')
        if d['exit'] == 0: return '**missed**'
        return f"machinery exit {d['exit']}"
    others = [k for k, d in {**m.get('checks_quick', {}), **cross}.items() if k != m['property'] and d.get('exit') == 1 and d.get('violation_lines', 0) > 0]
    rows.append((name, m.get('summary', ''), verdict(own), ', '.join(sorted(set(others))) or '–'))
print('| change | what was changed (needs something specific to manifest) | own check, quick tier | also caught by |')
print('|---|---|---|---|')
for r in rows:
    print('| ' + ' | '.join(x.replace('|', '\\|') if i == 1 else x for i, x in enumerate(r)) + ' |')
missed = [r[0] for r in rows if 'missed' in r[2]]
print()
print(f"{len(rows)} changes; caught by the property's own quick check: {len(rows)-len(missed)}; not caught by it: {', '.join(missed) or 'none'}.")
