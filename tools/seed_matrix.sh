#!/bin/bash
# usage: tools/seed_matrix.sh [-j N] [-x "<extra ids>"] [names...]   — re-evaluates stored seeded changes (default: all under /verif/seeded)
# against the property's own check (plus -x ids) on scratch worktrees, N at a time, and rewrites "checks_<tier>" in
# each meta.json. Prints one line per (change, check).
J=4; X=""
while getopts "j:x:" o; do case $o in j) J=$OPTARG;; x) X=$OPTARG;; esac; done; shift $((OPTIND-1))
NAMES="${@:-$(ls /verif/seeded)}"
mkdir -p /tmp/smx
for n in $NAMES; do echo $n; done | xargs -P $J -I{} bash -c 'n={}; p=${n%-*}; /verif/tools/mutant_matrix.sh /verif/seeded/$n/patch.diff $n $p '"$X"' > /tmp/smx/$n.out 2>&1'
for n in $NAMES; do
  cat /tmp/smx/$n.out
  RESULTS="$(cat /tmp/smx/$n.out)" python3 - $n "${TIER:-quick}" <<'PY'
import json,sys,re,os
n,tier=sys.argv[1:3]
p=f"/verif/seeded/{n}/meta.json"
m=json.load(open(p))
det={}
for line in os.environ["RESULTS"].splitlines():
    mm=re.match(r'\S+ (C\d+) rc=(\d+) violations=(\d+) ?(.*)',line)
    if mm: det[mm.group(1)]={"exit":int(mm.group(2)),"violation_lines":int(mm.group(3)),"first_classes":mm.group(4)[:600]}
if det:
    m["checks_"+tier]=det
    json.dump(m,open(p,"w"),indent=1)
PY
done
