#!/bin/bash
# usage: tools/cross_matrix.sh [-j N] [names...]  — every stored seeded change against ALL 16 quick checks (scratch worktrees);
# one line per (change, check) on stdout. Background job: results are summarised into DESIGN.md by hand/tools/seed_table.py.
J=3
while getopts "j:" o; do case $o in j) J=$OPTARG;; esac; done; shift $((OPTIND-1))
NAMES="${@:-$(ls /verif/seeded)}"
# when started through `vp run` the snapshot's own harness sources are used, so edits in /verif do not disturb the run
[ -d "$PWD/harness/cmd/xjsverif" ] && export VERIF_HARNESS="$PWD/harness"
mkdir -p /tmp/xmx
for n in $NAMES; do echo $n; done | xargs -P $J -I{} bash -c 'n={}; /verif/tools/mutant_matrix.sh /verif/seeded/$n/patch.diff x-$n > /tmp/xmx/$n.out 2>&1; cat /tmp/xmx/$n.out'
