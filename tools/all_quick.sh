#!/bin/bash
# usage: tools/all_quick.sh [seed]   — all sixteen quick checks on /repo as it is; exit 0 iff every one exits 0.
# Run before committing any change to shared harness code (generators, normalisers, framework).
bad=0
for id in C01 C02 C03 C04 C05 C06 C07 C08 C09 C10 C11 C12 C13 C14 C15 C16; do
  out=$(VERIF_SEED=${1:-1} /verif/bin/check $id quick 2>&1); rc=$?
  echo "$id rc=$rc $(echo "$out" | grep -E "^C.. quick" | cut -c1-130)"
  [ $rc != 0 ] && { bad=1; echo "$out" | grep -m3 "class=" | cut -c1-300; }
done
exit $bad
