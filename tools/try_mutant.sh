#!/bin/bash
# usage: tools/try_mutant.sh <patch.diff> <ID> [<ID>...]   — applies a patch to /repo, runs quick checks, reverts.
patch="$1"; shift
cd /repo || exit 2
if ! git diff --quiet; then echo "/repo has uncommitted changes; refusing" >&2; exit 2; fi
git apply "$patch" || { echo "patch does not apply" >&2; exit 2; }
trap 'git -C /repo checkout -- . ; git -C /repo clean -fdq' EXIT
for id in "$@"; do
  out=$(cd /verif && bin/check "$id" ${TIER:-quick} 2>&1); rc=$?
  nv=$(echo "$out" | grep -c '^VIOLATION')
  echo "== $id rc=$rc violations=$nv :: $(echo "$out" | grep -m3 'class=' | cut -c1-260 | tr '\n' '|')"
done
