#!/bin/bash
# usage: tools/mutation_phase1.sh [-j N] [first last]   — mechanical mutants (tools/mutgen) of /repo HEAD: which still compile
# and pass the project's own suite?  One line per mutant in $MUT_DIR/phase1.tsv: id, verdict (stillborn|suite-kills|suite-passes),
# file, line, kind, change.  Works on scratch worktrees under $MUT_DIR (default /tmp/mutsweep); /repo is never touched.
export GOFLAGS=-mod=mod GOPROXY=off GOSUMDB=off GOTOOLCHAIN=local
J=4
while getopts "j:" o; do case $o in j) J=$OPTARG;; esac; done; shift $((OPTIND-1))
MUT_DIR=${MUT_DIR:-/tmp/mutsweep}; mkdir -p $MUT_DIR
(cd /verif/tools/mutgen && go build -o $MUT_DIR/mutgen .) || exit 2
# frozen copy of /repo HEAD: mutant ids stay valid while /repo moves on
if [ ! -d $MUT_DIR/base ]; then git -C /repo worktree add -q --detach $MUT_DIR/base HEAD || exit 2; fi
$MUT_DIR/mutgen list $MUT_DIR/base > $MUT_DIR/mutants.tsv
N=$(wc -l < $MUT_DIR/mutants.tsv)
FIRST=${1:-0}; LAST=${2:-$((N-1))}
for k in $(seq 1 $J); do
  WT=$MUT_DIR/slot$k
  git -C /repo worktree remove --force $WT 2>/dev/null; rm -rf $WT
  git -C /repo worktree add -q --detach $WT $(git -C $MUT_DIR/base rev-parse HEAD) || exit 2
done
one() { # $1 = slot, $2 = id
  WT=$MUT_DIR/slot$1; id=$2
  $MUT_DIR/mutgen apply $MUT_DIR/base $id $WT >/dev/null
  verdict=stillborn
  if (cd $WT && go build ./... ) >/dev/null 2>&1; then
    if (cd $WT && timeout 60 go test -vet=off -count=1 ./... ) >/dev/null 2>&1; then verdict=suite-passes; else verdict=suite-kills; fi
  fi
  git -C $WT checkout -q -- .
  echo -e "$id\t$verdict\t$(sed -n "$((id+1))p" $MUT_DIR/mutants.tsv | cut -f2-)"
}
export -f one; export MUT_DIR
seq $FIRST $LAST | xargs -P $J -I{} bash -c 'slot=$(( ({} % '$J') + 1 )); exec 9>$MUT_DIR/slot$slot.lock; flock 9; one $slot {}' >> $MUT_DIR/phase1.tsv
for k in $(seq 1 $J); do git -C /repo worktree remove --force $MUT_DIR/slot$k 2>/dev/null; done
cut -f2 $MUT_DIR/phase1.tsv | sort | uniq -c
