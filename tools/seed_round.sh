#!/bin/bash
# usage: tools/seed_round.sh <Cxx> [offset]  env SEED_SRC — evaluates patch1..3 of one property of a seeding round
ID=$1; OFF=${2:-23}
for i in 1 2 3; do [ -f ${SEED_SRC:-/tmp/seeded9}/$ID/patch$i.diff ] && SEED_OFFSET=$OFF /verif/tools/seed_eval.sh $ID $i 2>&1 | grep -E "^CONFIRM|rc=" | cut -c1-400; done
