#!/bin/bash
# usage: tools/sweep.sh <tier> "<seeds>" [ids...]   — silence sweep: builds the monitors once into $VERIF_OUT (default
# /tmp/sweep.$$), then runs every check at every seed and prints one line per run. Exit 0 iff all runs exit 0.
export GOFLAGS=-mod=mod GOPROXY=off GOSUMDB=off GOTOOLCHAIN=local
TIER="$1"; SEEDS="$2"; shift 2
IDS="${@:-C01 C02 C03 C04 C05 C06 C07 C08 C09 C10 C11 C12 C13 C14 C15 C16}"
export VERIF_OUT="${VERIF_OUT:-/tmp/sweep.$$}"
mkdir -p "$VERIF_OUT/.build"
cd /verif/harness || exit 2
go build -tags verif -o "$VERIF_OUT/.build/xjsverif" ./cmd/xjsverif || exit 2
go build -tags verif -race -o "$VERIF_OUT/.build/xjsverif-race" ./cmd/xjsverif || exit 2
bad=0
for seed in $SEEDS; do for id in $IDS; do
  s=$(date +%s)
  if [ $id = C14 ]; then extra="-worker-exe $VERIF_OUT/.build/xjsverif-race"; else extra=""; fi
  out=$(VERIF_SEED=$seed "$VERIF_OUT/.build/xjsverif" check $extra $id $TIER 2>&1); rc=$?
  e=$(( $(date +%s)-s ))
  echo "seed=$seed $id $TIER rc=$rc ${e}s violations=$(echo "$out" | grep -c '^VIOLATION') $(echo "$out" | grep -m2 'class=' | cut -c1-200 | tr '\n' '|')"
  if [ $rc != 0 ]; then bad=1; mkdir -p "$VERIF_OUT/fail"; echo "$out" > "$VERIF_OUT/fail/$id.$seed.$TIER.log"; fi
done; done
exit $bad
