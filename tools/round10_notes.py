#!/usr/bin/env python3
"""Completes the meta.json of the round-10 changes (27-29): summary, round, missed-at-first flag."""
import json, os
S = {
 'C01-27': ("ReadChar notes line breaks for the newline flag: a multi-line backtick string on the same line as `return` is marked after-newline and `return` loses its value", 0),
 'C01-28': ("bare `return` writes its own `;` and no longer records an omitted semicolon: without semicolons `if (c) return⏎else …` is printed `return else`", 0),
 'C01-29': ("encodeUTF8 as a switch on exclusive upper bounds: U+FFFF (escape `\\uffff`) is emitted as an over-long four-byte sequence", 1),
 'C02-27': ("keyword lookup through a packed 8-byte key: identifiers longer than 8 bytes that begin with `function` (functionName) are lexed as the keyword", 0),
 'C02-28': ("word after a dot forced to an identifier through a flag that early returns do not clear: a keyword that starts the line after `x = o.p` is an identifier", 0),
 'C02-29': ("if / while conditions read by the general expression parser: a brace-less body that begins with `(`, `[`, `-`, `++` is glued to the condition and the statement dropped", 0),
 'C04-27': ("interceptor wrappers skip the interceptors once a strict-mode parse has recorded an error: later steps are never offered", 1),
 'C04-28': ("leading string-literal statements parsed as a directive prologue before the statement loop: never offered to statement interceptors", 0),
 'C04-29': ("RegisterPrefixOperator implemented as a hidden expression interceptor: interceptors installed later never see steps at the operator, the re-entrant path fails", 0),
 'C05-27': ("`1.` lexed as a number: a registered operator that begins with a dot (`..`) loses its first character after an integer literal (`1..5`)", 1),
 'C05-28': ("separator tokens `, : ; ) ] }` entered in the binding-power table at LOWEST: the first infix registration on `:` is refused as a duplicate", 1),
 'C05-29': ("token-type names memoised by lower-cased, trimmed name: `PI` and `pi`, `e` and ` e` share one id", 1),
 'C07-27': ("upper-case `\\X` / `\\U` accepted as escape introducers: `\"\\X41\"` becomes `A`, `\\Ubuntu` loses its hex-like letters", 1),
 'C07-28': ("compact output broken into lines of about 32000 bytes at `the next statement end`, found by a scanner that starts tracking strings mid-line: a `;` inside a literal gets a line feed", 1),
 'C07-29': ("malformed-escape fallbacks emit an escaped backslash; `\\u{…}` with 7+ hex digits (leading zeros) takes that fallback", 1),
 'C08-27': ("AdvanceString fast path for texts of 16+ bytes without CR: the column after the last line feed is one too large (multi-line template literals)", 0),
 'C08-28': ("backtick token built in one expression whose scanner runs before the position is read: Start is the closing backtick", 0),
 'C08-29': ("source mappers pooled and released after Compile; Release keeps the names array: the Names of an earlier result are rewritten by the next compilation", 1),
 'C09-27': ("AdvanceString loop with a CR flag that an early `continue` leaves set: the LF after a CR LF pair in the same chunk is not counted (`\\r\\n\\n`)", 0),
 'C09-28': ("names passed through strings.ToValidUTF8: names with non-UTF-8 bytes are altered and distinct names merge into one index", 1),
 'C09-29': ("New() returns a shallow copy of a package-level prototype: the name index map is shared by all builders of the process", 0),
 'C10-27': ("keyword tokens take their literal from the type's display name: `null` carries the literal `undefined`", 0),
 'C10-28': ("ReadChar's end-of-input guard expressed with atEOF(): the end-of-input token of the empty source sits at column -1", 0),
 'C10-29': ("case folding of radix / exponent letters with `& 0x5F`: a digit swallows the bytes C2/E2, D8/F8, CF/EF, C5/E5 (`0©`, `7年`)", 0),
 'C11-27': ("NewToken moves the start back by len(literal)-1: illegal tokens of bytes >= 0x80 (two-byte literal) start one column early, at -1 in column 0", 0),
 'C11-28': ("error list capped at 100 with a synthetic `too many errors` entry that has a zero range", 0),
 'C11-29': ("shebang support without an end-of-input check: Build never returns for `#!…` without a line break", 0),
 'C13-27': ("expression-depth guard (limit 256) whose counter is not decremented on the smart-semicolon cut: scripts with 130+ line-leading brackets are rejected in smart mode", 1),
 'C13-28': ("tolerant mode drops ILLEGAL tokens in NextToken: a parser plugin that gives meaning to an illegal character sees other trees in tolerant mode", 0),
 'C13-29': ("Builder.Build normalises CR LF / CR to LF in tolerant mode only", 0),
 'C14-27': ("TrimSpace moved from the pretty cleaner into Compile: compact output of a tree whose plugin node ends its own line differs from the debug string", 1),
 'C14-28': ("printer learns the level of plugin operators through a package-level table keyed by token type: another builder reusing the dynamic id changes how an existing tree prints", 1),
 'C14-29': ("binding-power table copied once per builder and shared by its parsers: a parser built before a later registration loops on that operator's token (concurrent use crashes)", 1),
 'C15-27': ("blank lines recorded only while a token has fewer than 16 trivia entries: blank lines after a 16-line header are lost", 1),
 'C15-28': ("no blank lines between list elements via a depth counter that blocks never reset: statement lists inside call arguments / array / object values lose blank lines", 0),
 'C15-29': ("trailing blank entries stripped from the trivia of `}` and end of input with a test that also matches the empty-comment sentinel: closing `//` lines are dropped", 0),
}
import sys
S.update(json.load(open(sys.argv[1])) if len(sys.argv) > 1 else {})
for name, (summary, missed) in S.items():
    p = f'/verif/seeded/{name}/meta.json'
    if not os.path.exists(p):
        print('absent', name); continue
    m = json.load(open(p))
    m['summary'] = summary; m['round'] = 10; m['missed_by_own_check_at_first'] = bool(missed)
    json.dump(m, open(p, 'w'), indent=1)
print('ok')
