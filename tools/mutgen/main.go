// mutgen enumerates small mechanical mutations of the non-test Go sources of a repository and applies one of them.
//
//	mutgen list  <repo>                 one line per mutant: id<TAB>file<TAB>line<TAB>kind<TAB>old -> new
//	mutgen apply <repo> <id> <dest>     writes the mutated file into the same relative path under <dest>
//
// It is validation tooling for the monitors (DESIGN §7.5): a mutant that still compiles and passes the project's own
// suite is run against the quick checks; survivors are triaged by hand into "equivalent" and "blind spot".
package main

import (
	"fmt"
	"go/ast"
	"go/parser"
	"go/token"
	"os"
	"path/filepath"
	"sort"
	"strconv"
	"strings"
)

type mutant struct {
	file       string
	off, end   int
	repl, kind string
	line       int
}

var swaps = map[token.Token][]token.Token{
	token.LSS: {token.LEQ}, token.LEQ: {token.LSS}, token.GTR: {token.GEQ}, token.GEQ: {token.GTR},
	token.EQL: {token.NEQ}, token.NEQ: {token.EQL}, token.LAND: {token.LOR}, token.LOR: {token.LAND},
	token.ADD: {token.SUB}, token.SUB: {token.ADD},
}

func collect(repo string) []mutant {
	var out []mutant
	pkgs := []string{"ast", "compiler", "debug", "lexer", "parser", "sourcemap", "token"}
	for _, pk := range pkgs {
		files, _ := filepath.Glob(filepath.Join(repo, pk, "*.go"))
		sort.Strings(files)
		for _, f := range files {
			if strings.HasSuffix(f, "_test.go") || strings.HasSuffix(f, "verif_hooks.go") {
				continue
			}
			out = append(out, collectFile(repo, f)...)
		}
	}
	return out
}

func collectFile(repo, path string) []mutant {
	fset := token.NewFileSet()
	src, err := os.ReadFile(path)
	if err != nil {
		panic(err)
	}
	f, err := parser.ParseFile(fset, path, src, 0)
	if err != nil {
		panic(err)
	}
	rel, _ := filepath.Rel(repo, path)
	var out []mutant
	add := func(pos, end token.Pos, repl, kind string) {
		p := fset.Position(pos)
		out = append(out, mutant{file: rel, off: p.Offset, end: fset.Position(end).Offset, repl: repl, kind: kind, line: p.Line})
	}
	text := func(n ast.Node) string { return string(src[fset.Position(n.Pos()).Offset:fset.Position(n.End()).Offset]) }
	var inspectStmts func(list []ast.Stmt)
	inspectStmts = func(list []ast.Stmt) {
		for _, s := range list {
			switch st := s.(type) {
			case *ast.ExprStmt:
				if _, ok := st.X.(*ast.CallExpr); ok {
					add(st.Pos(), st.End(), "if false { "+text(st)+" }", "delete-call")
				}
			case *ast.AssignStmt:
				if st.Tok == token.ASSIGN || st.Tok == token.ADD_ASSIGN || st.Tok == token.SUB_ASSIGN {
					add(st.Pos(), st.End(), "if false { "+text(st)+" }", "delete-assign")
				}
			case *ast.IncDecStmt:
				add(st.Pos(), st.End(), "if false { "+text(st)+" }", "delete-incdec")
			case *ast.DeferStmt:
				add(st.Pos(), st.End(), "if false { "+text(st)+" }", "delete-defer")
			case *ast.BranchStmt:
				if st.Tok == token.BREAK && st.Label == nil {
					add(st.Pos(), st.End(), "continue", "break->continue")
				}
				if st.Tok == token.CONTINUE && st.Label == nil {
					add(st.Pos(), st.End(), "break", "continue->break")
				}
			}
		}
	}
	ast.Inspect(f, func(n ast.Node) bool {
		switch x := n.(type) {
		case *ast.GenDecl:
			if x.Tok == token.CONST || x.Tok == token.IMPORT || x.Tok == token.TYPE {
				return false
			}
		case *ast.BinaryExpr:
			for _, t := range swaps[x.Op] {
				if x.Op == token.ADD || x.Op == token.SUB {
					// only arithmetic on integers is interesting; string concatenation with '-' does not compile anyway
				}
				add(x.OpPos, x.OpPos+token.Pos(len(x.Op.String())), t.String(), "op "+x.Op.String()+"->"+t.String())
			}
		case *ast.BasicLit:
			if x.Kind == token.INT {
				if v, err := strconv.ParseInt(x.Value, 0, 64); err == nil && v >= 0 && v < 1000 && !strings.HasPrefix(x.Value, "0x") {
					add(x.Pos(), x.End(), strconv.FormatInt(v+1, 10), "int+1")
					if v > 0 {
						add(x.Pos(), x.End(), strconv.FormatInt(v-1, 10), "int-1")
					}
				}
			}
		case *ast.IfStmt:
			add(x.Cond.Pos(), x.Cond.End(), "!("+text(x.Cond)+")", "negate-if")
			add(x.Cond.Pos(), x.Cond.End(), "("+text(x.Cond)+") && false", "if-false")
			add(x.Cond.Pos(), x.Cond.End(), "("+text(x.Cond)+") || true", "if-true")
		case *ast.ForStmt:
			if x.Cond != nil {
				add(x.Cond.Pos(), x.Cond.End(), "("+text(x.Cond)+") && false", "for-false")
			}
		case *ast.BlockStmt:
			inspectStmts(x.List)
		case *ast.CaseClause:
			inspectStmts(x.Body)
			if len(x.List) > 1 { // drop one alternative of a multi-valued case
				for i, e := range x.List {
					if i == 0 {
						add(e.Pos(), x.List[1].Pos(), "", "drop-case-alt")
					} else {
						add(x.List[i-1].End(), e.End(), "", "drop-case-alt")
					}
				}
			}
		case *ast.ReturnStmt:
			if len(x.Results) == 1 {
				if id, ok := x.Results[0].(*ast.Ident); ok {
					if id.Name == "true" {
						add(id.Pos(), id.End(), "false", "return-true->false")
					}
					if id.Name == "false" {
						add(id.Pos(), id.End(), "true", "return-false->true")
					}
				}
			}
		case *ast.UnaryExpr:
			if x.Op == token.NOT {
				add(x.OpPos, x.OpPos+1, "", "drop-not")
			}
		}
		return true
	})
	return out
}

func main() {
	if len(os.Args) < 3 {
		fmt.Fprintln(os.Stderr, "usage: mutgen list <repo> | mutgen apply <repo> <id> <dest>")
		os.Exit(2)
	}
	ms := collect(os.Args[2])
	switch os.Args[1] {
	case "list":
		for i, m := range ms {
			src, _ := os.ReadFile(filepath.Join(os.Args[2], m.file))
			old := strings.ReplaceAll(string(src[m.off:m.end]), "\n", "\\n")
			if len(old) > 60 {
				old = old[:60] + "…"
			}
			repl := strings.ReplaceAll(m.repl, "\n", "\\n")
			if len(repl) > 70 {
				repl = repl[:70] + "…"
			}
			fmt.Printf("%d\t%s\t%d\t%s\t%s -> %s\n", i, m.file, m.line, m.kind, old, repl)
		}
	case "apply":
		id, _ := strconv.Atoi(os.Args[3])
		m := ms[id]
		src, _ := os.ReadFile(filepath.Join(os.Args[2], m.file))
		res := string(src[:m.off]) + m.repl + string(src[m.end:])
		if err := os.WriteFile(filepath.Join(os.Args[4], m.file), []byte(res), 0o644); err != nil {
			panic(err)
		}
		fmt.Printf("%s:%d %s\n", m.file, m.line, m.kind)
	}
}
